"""Unit tests of the choice-sequence engine (run: /venv/bin/python -m pytest -q tests)."""
import sys

sys.path.insert(0, __file__.rsplit("/tests/", 1)[0])

from verifsim.core import Choices, Trace, run_seed  # noqa: E402


def test_replay_reproduces_and_zero_is_the_simple_alternative():
    a = Choices(seed=123)
    got = [a.draw(7, "x"), a.flip(1, 3, "f"), a.weighted([3, 1, 2], "w"), a.perm(4, "p"), a.draw(1, "none")]
    b = Choices(replay=a.log)
    assert [b.draw(7), b.flip(1, 3), b.weighted([3, 1, 2]), b.perm(4), b.draw(1)] == got
    assert b.log == a.log
    # exhausted or out-of-range entries read as 0: identity permutation, False, first alternative
    c = Choices(replay=[99, -1, "x"])
    assert c.draw(5) == 0 and c.draw(5) == 0 and c.draw(5) == 0
    assert c.perm(3) == [0, 1, 2] and c.flip(1, 2) is False and c.weighted([1, 5]) == 0
    # a draw with a single alternative is not recorded (shrunken lists stay short)
    n = len(c.log)
    c.draw(1)
    assert len(c.log) == n


def test_run_seed_is_stable_and_independent_of_hash_randomisation():
    assert run_seed(0, "C09", 5) == run_seed(0, "C09", 5)
    assert run_seed(0, "C09", 5) != run_seed(0, "C09", 6) != run_seed(1, "C09", 5)
    assert run_seed(0, "C09", 5) == 0x0 + run_seed(0, "C09", 5)  # an int derived from SHA-256, not hash()


def test_trace_digest_depends_on_every_event():
    t1, t2 = Trace(capture=True), Trace(capture=True)
    for t in (t1, t2):
        t.shape("op", 1, "a")
        t.ev("val", 1.5)
    assert t1.digest() == t2.digest()
    t2.ev("val", 1.5000000001)
    assert t1.digest() != t2.digest()
