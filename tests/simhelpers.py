"""Module-level helpers for the simulator's own tests (must be importable so
that functions pickle by reference, as with the real pool)."""
import numpy as np

G = None  # a "process global" set by the initializer
LOG = []


def init_set_global(tag, shared, plain):
    global G
    G = (tag, np.frombuffer(shared), plain)


def task_write(j):
    tag, sh, plain = G
    x = j * 2  # a few traced lines so that pre-emption can land inside
    y = x + 1
    sh[j] = y
    plain[j] = y
    return j


def task_square(x):
    return x * x


def task_add(a, b):
    return a + b


def task_fail(x):
    if x == 2:
        raise KeyError("boom")
    return x


def task_slow_write(args):
    j, n = args
    tag, sh, plain = G
    for k in range(n):
        sh[j] += 1.0
    return j


__simmp_func_state__ = True  # ask the simulator to treat function attributes / defaults here as per-process


def task_scratch(j):
    """Uses a per-process scratch cell kept as a function attribute: correct
    in real processes (one task at a time per process), a race only if the
    attribute were shared between simulated workers."""
    tag, sh, plain = G
    buf = task_scratch.__dict__.setdefault("buf", [None])
    buf[0] = j
    x = 1
    y = x + 1
    sh[j] = buf[0] * 10 + y
    return j


def task_count(j, _seen=[]):
    """Counts the tasks executed by this process in a mutable default."""
    _seen.append(j)
    x = len(_seen)
    return (j, x)


def task_read_plain(j):
    tag, sh, plain = G
    x = float(plain[0])
    return (j, x)


def task_echo(x):
    y = x
    return y
