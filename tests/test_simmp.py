"""Unit tests of the simulated multiprocessing pool (run: /venv/bin/python -m pytest -q tests)."""
import ctypes
import multiprocessing as real_mp
import sys
import threading

import numpy as np
import pytest

sys.path.insert(0, __file__.rsplit("/tests/", 1)[0])
sys.path.insert(0, __file__.rsplit("/", 1)[0])

from verifsim.core import Choices, Trace, Stats, Violation  # noqa: E402
from verifsim.simmp import Scheduler, SimMP  # noqa: E402
import simhelpers  # noqa: E402


def alive(sched):
    return [w for w in sched.all_workers if w.thread is not None and w.thread.is_alive()]


def mk(seed=1, replay=None, preempt=(1, 1), cpu=4, progress=True, parent_preempt=None):
    ch = Choices(seed=seed, replay=replay)
    tr = Trace(capture=True)
    st = Stats()
    cfg = dict(preempt=preempt, sticky=1, weights=[1, 4, 16], progress=progress, parent_preempt=parent_preempt, step_cap=100000)
    sched = Scheduler(ch, tr, st, cfg, {simhelpers.__file__}, [simhelpers], set())
    return ch, tr, st, sched, SimMP(sched, cpu)


def run_write(seed, n=6, procs=3, **kw):
    ch, tr, st, sched, mp = mk(seed, **kw)
    shared = real_mp.RawArray(ctypes.c_double, n)
    plain = np.zeros(n)
    try:
        with mp.Pool(processes=procs, initializer=simhelpers.init_set_global, initargs=("w", shared, plain)) as pool:
            got = list(pool.imap_unordered(simhelpers.task_write, range(n)))
    finally:
        sched.shutdown()
    return got, np.frombuffer(shared).copy(), plain, tr, st, sched


def test_results_shared_memory_and_isolation():
    orders = set()
    for seed in range(40):
        got, shared, plain, tr, st, sched = run_write(seed)
        assert sorted(got) == list(range(6))
        assert shared.tolist() == [2 * j + 1 for j in range(6)]  # RawArray is shared
        assert plain.tolist() == [0.0] * 6  # a plain ndarray is copied at fork
        assert simhelpers.G is None  # the parent's view of the global is untouched
        assert not alive(sched)
        orders.add(tuple(got))
    assert len(orders) > 5  # completion order really is searched


def test_same_seed_same_trace_and_replay():
    a = run_write(7)
    b = run_write(7)
    assert a[3].digest() == b[3].digest() and a[0] == b[0]
    ch, tr, st, sched, mp = mk(7)
    # replay from the recorded choice list
    got1, _, _, tr1, _, s1 = run_write(7)
    ch2 = Choices(seed=7)
    # all zeros: one worker takes every task, in order
    got0, _, _, tr0, st0, _ = run_write(0, replay=[])
    assert got0 == list(range(6))
    assert st0.faults.get("one_worker_takes_all", 0) == 0  # accounted by the workload, not the pool
    assert len(set(w for w in [x for x in tr0.lines if x.startswith("run")])) >= 1


def test_processes_must_be_positive():
    ch, tr, st, sched, mp = mk()
    with pytest.raises(ValueError):
        mp.Pool(processes=0)
    sched.shutdown()


def test_map_family():
    ch, tr, st, sched, mp = mk(3)
    with mp.Pool(3) as pool:
        assert pool.map(simhelpers.task_square, range(7)) == [x * x for x in range(7)]
        assert pool.map(simhelpers.task_square, range(7), chunksize=3) == [x * x for x in range(7)]
        assert list(pool.imap(simhelpers.task_square, range(5))) == [0, 1, 4, 9, 16]
        assert pool.starmap(simhelpers.task_add, [(1, 2), (3, 4)]) == [3, 7]
        assert pool.apply(simhelpers.task_add, (5, 6)) == 11
        r = pool.apply_async(simhelpers.task_square, (9,))
        assert r.get() == 81 and r.ready() and r.successful()
        ar = pool.map_async(simhelpers.task_square, [1, 2, 3])
        ar.wait()
        assert ar.get() == [1, 4, 9]
    sched.shutdown()
    assert not alive(sched)


def test_task_exception_is_delivered():
    ch, tr, st, sched, mp = mk(5)
    with mp.Pool(2) as pool:
        with pytest.raises(KeyError):
            for _ in pool.imap_unordered(simhelpers.task_fail, range(4)):
                pass
    with mp.Pool(2) as pool:
        with pytest.raises(KeyError):
            pool.map(simhelpers.task_fail, range(4))
    sched.shutdown()


def test_unpicklable_task_argument_fails_like_the_real_pool():
    ch, tr, st, sched, mp = mk(5)
    with mp.Pool(2) as pool:
        with pytest.raises(Exception):
            pool.map(lambda x: x, range(3))
    sched.shutdown()


def test_terminate_loses_inflight_work():
    lost = 0
    for seed in range(30):
        ch, tr, st, sched, mp = mk(seed)
        n = 6
        shared = real_mp.RawArray(ctypes.c_double, n)
        pool = mp.Pool(3, initializer=simhelpers.init_set_global, initargs=("w", shared, np.zeros(n)))
        pool.map_async(simhelpers.task_slow_write, [(j, 5) for j in range(n)])  # nobody waits
        pool.terminate()
        sched.shutdown()
        assert not alive(sched)
        if np.frombuffer(shared).sum() < 5 * n:
            lost += 1
            assert st.probes.get("terminate_with_inflight", 0) > 0
    assert lost > 0


def test_join_waits_for_everything():
    for seed in range(10):
        ch, tr, st, sched, mp = mk(seed)
        n = 5
        shared = real_mp.RawArray(ctypes.c_double, n)
        pool = mp.Pool(2, initializer=simhelpers.init_set_global, initargs=("w", shared, np.zeros(n)))
        pool.map_async(simhelpers.task_slow_write, [(j, 4) for j in range(n)])
        with pytest.raises(ValueError):
            pool.join()  # still running
        pool.close()
        pool.join()
        sched.shutdown()
        assert np.frombuffer(shared).tolist() == [4.0] * n


def test_two_workers_inside_a_task_at_once():
    seen = 0
    for seed in range(20):
        *_, st, sched = run_write(seed, preempt=(1, 1))
        seen += sched.max_mid_task >= 2
    assert seen > 0


def test_step_cap_is_a_violation_not_a_hang():
    ch, tr, st, sched, mp = mk(2)
    sched.step_cap = 10
    shared = real_mp.RawArray(ctypes.c_double, 4)
    with pytest.raises(Violation):
        with mp.Pool(2, initializer=simhelpers.init_set_global, initargs=("w", shared, np.zeros(4))) as pool:
            pool.map(simhelpers.task_slow_write, [(j, 50) for j in range(4)])
    sched.shutdown()
    assert not alive(sched)


def test_function_attributes_are_per_process():
    for seed in range(40):
        ch, tr, st, sched, mp = mk(seed)
        n = 8
        shared = real_mp.RawArray(ctypes.c_double, n)
        try:
            with mp.Pool(processes=3, initializer=simhelpers.init_set_global, initargs=("w", shared, np.zeros(n))) as pool:
                got = list(pool.imap_unordered(simhelpers.task_scratch, range(n)))
        finally:
            sched.shutdown()
        assert sorted(got) == list(range(n))
        assert np.frombuffer(shared).tolist() == [10.0 * j + 2 for j in range(n)]  # no cross-talk through the attribute
        assert "buf" not in simhelpers.task_scratch.__dict__  # the parent never set it


def test_mutable_defaults_are_per_process():
    totals = set()
    for seed in range(40):
        ch, tr, st, sched, mp = mk(seed)
        n = 9
        try:
            with mp.Pool(processes=3) as pool:
                got = list(pool.imap_unordered(simhelpers.task_count, range(n)))
        finally:
            sched.shutdown()
        assert sorted(j for j, _ in got) == list(range(n))
        counts = sorted(c for _, c in got)
        # each worker counts its own tasks from 1: the multiset of counts is a union of 1..k_w with sum k_w = n
        assert counts.count(1) >= 1 and sum(1 for c in counts if c == 1) <= 3
        assert simhelpers.task_count.__defaults__ == ([],)  # the parent's default is untouched
        totals.add(tuple(counts))
    assert len(totals) > 1


def _recycle_run(seed, maxtasks, n=9, procs=3):
    ch, tr, st, sched, mp = mk(seed)
    shared = real_mp.RawArray(ctypes.c_double, n)
    plain = np.zeros(n)
    vals = []
    try:
        with mp.Pool(processes=procs, initializer=simhelpers.init_set_global, initargs=("w", shared, plain), maxtasksperchild=maxtasks) as pool:
            for j, x in pool.imap_unordered(simhelpers.task_read_plain, range(n)):
                vals.append((j, x))
                plain[0] += 1.0  # the parent changes its own (private) copy while the pool is alive
    finally:
        sched.shutdown()
    return vals, st, sched


def test_maxtasksperchild_recycles_and_forks_from_current_parent_state():
    saw_new_state = 0
    for seed in range(30):
        vals, st, sched = _recycle_run(seed, maxtasks=1)
        assert sorted(j for j, _ in vals) == list(range(9))
        assert st.faults.get("worker_recycled", 0) >= 6  # 9 tasks, 1 task per process, 3 initial processes
        assert len(sched.all_workers) >= 9
        assert not alive(sched)
        # the three initial processes were forked at Pool(): they see 0; a replacement is forked
        # later and sees what the parent had written by then
        saw_new_state += any(x > 0 for _, x in vals)
        assert sum(1 for _, x in vals if x == 0) >= 1
    assert saw_new_state >= 20
    for seed in range(10):
        vals, st, sched = _recycle_run(seed, maxtasks=None)
        assert all(x == 0 for _, x in vals) and not st.faults.get("worker_recycled")
        assert len(sched.all_workers) == 3
    with pytest.raises(ValueError):
        ch, tr, st, sched, mp = mk(1)
        try:
            mp.Pool(2, maxtasksperchild=0)
        finally:
            sched.shutdown()


def _lazy_run(seed, lazy, n=8, use="imap_unordered"):
    ch = Choices(seed=seed)
    tr = Trace(capture=True)
    st = Stats()
    cfg = dict(preempt=(1, 1), sticky=1, weights=[1, 4, 16], progress=True, parent_preempt=None, step_cap=100000, lazy_feed=lazy)
    sched = Scheduler(ch, tr, st, cfg, {simhelpers.__file__}, [simhelpers], set())
    mp = SimMP(sched, 4)
    state = {"v": 0}

    def gen():
        for j in range(n):
            yield (j, state["v"])  # reads the parent's state when the task handler pulls the item

    got = []
    try:
        with mp.Pool(processes=3) as pool:
            if use == "imap_unordered":
                for r in pool.imap_unordered(simhelpers.task_echo, gen()):
                    got.append(r)
                    state["v"] += 1
            elif use == "imap":
                for r in pool.imap(simhelpers.task_echo, gen(), chunksize=3):
                    got.append(r)
                    state["v"] += 1
            else:
                got = pool.map(simhelpers.task_echo, gen())
    finally:
        sched.shutdown()
    assert not alive(sched)
    return got, st


def test_lazy_task_feeding():
    late = 0
    for seed in range(40):
        got, st = _lazy_run(seed, lazy=True)
        assert sorted(j for j, _ in got) == list(range(8))  # nothing lost, nothing duplicated, iteration ends
        late += any(v > 0 for _, v in got)
    assert late >= 3  # some schedules pull items after the parent has moved on
    for seed in range(10):
        got, st = _lazy_run(seed, lazy=False)
        assert sorted(j for j, _ in got) == list(range(8)) and all(v == 0 for _, v in got)
        assert not st.faults.get("lazy_task_feed")
    for seed in range(20):
        got, st = _lazy_run(seed, lazy=True, use="imap")
        assert [j for j, _ in got] == list(range(8))  # imap keeps submission order
        got, st = _lazy_run(seed, lazy=True, use="map")
        assert got == [(j, 0) for j in range(8)]  # map takes list(iterable) at call time


def test_lazy_feeding_iterable_that_raises():
    for seed in range(10):
        ch = Choices(seed=seed)
        st = Stats()
        cfg = dict(preempt=(1, 1), sticky=1, weights=[4], progress=True, parent_preempt=None, step_cap=100000, lazy_feed=True)
        sched = Scheduler(ch, Trace(capture=True), st, cfg, {simhelpers.__file__}, [simhelpers], set())
        mp = SimMP(sched, 2)

        def gen():
            yield 1
            yield 2
            raise KeyError("bad item")

        got = []
        try:
            with mp.Pool(2) as pool:
                with pytest.raises(KeyError):
                    for r in pool.imap(simhelpers.task_echo, gen()):
                        got.append(r)
        finally:
            sched.shutdown()
        assert got == [1, 2]
