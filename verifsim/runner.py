"""
Search runner, minimiser, replay and evidence writer (DESIGN.md section 2).

Exit status of a check: 0 every run ok (or only KNOWN-FINDINGs), 1 at least one
violation (a line `VIOLATION property=<id> replay=<path>` per distinct
violation), 2 harness error / nondeterminism / timeout.
"""

import argparse
import concurrent.futures as cf
import faulthandler
import hashlib
import importlib
import json
import multiprocessing
import os
import re
import subprocess
import sys
import time
import traceback

from . import core, sut
from .core import Choices, Trace, Stats, Violation, HarnessError

ROOT = os.path.dirname(os.path.dirname(os.path.abspath(__file__)))
OUT = os.environ.get("VERIF_OUT") or ROOT  # evidence/ and replays/ go here
PROPS = {"C09": "verifsim.c09", "C08": "verifsim.c08", "C16": "verifsim.c16"}

# runs per tier (fixed numbers: one VERIF_SEED is one repeatable batch) and
# the wall-clock safety cap after which no further chunk is started
BUDGET = {
    "C09": {"quick": (16000, 200), "thorough": (600000, 2400)},
    "C08": {"quick": (100000, 200), "thorough": (2500000, 2400)},
    "C16": {"quick": (40000, 200), "thorough": (900000, 2400)},
}
CHUNK = {"C09": 50, "C08": 500, "C16": 250}


def load(prop):
    return importlib.import_module(PROPS[prop])


# ------------------------------------------------------------------ one run


def execute(prop, seed=None, replay=None, capture=False):
    mod = load(prop)
    if hasattr(mod, "modules"):
        mod.modules()  # make sure the package under test is imported ...
    sut.reset_module_state()  # ... and starts every run from its import-time state
    ch = Choices(seed=seed, replay=replay)
    tr = Trace(capture=capture)
    st = Stats()
    res = {"verdict": "ok", "violation": None, "error": None}
    try:
        mod.run(ch, tr, st)
    except Violation as v:
        res["verdict"] = "violation"
        res["violation"] = v.record()
        tr.ev("VIOLATION", v.kind, v.where)
    except RecursionError:
        res["verdict"] = "harness_error"
        res["error"] = traceback.format_exc()
    except Exception:
        res["verdict"] = "harness_error"
        res["error"] = traceback.format_exc()
    res.update(
        choices=list(ch.log),
        tags=[t for t, _ in ch.tags] if capture else None,
        digest=tr.digest(),
        faults=st.faults,
        probes=st.probes,
        distinct=st.distinct,
        nontrivial=bool(st.nontrivial),
        steps=st.steps,
        rendered=core._jsonable(st.rendered),
        trace=tr.lines if capture else None,
        notes=st.notes,
        maxima=st.maxima,
    )
    return res


def signature(viol):
    where = re.sub(r"\d+", "#", viol["where"])
    return f'{viol["kind"]}@{where}'


# --------------------------------------------------------------- chunk worker


def _chunk(args):
    prop, verif_seed, indices, check_idx, src = args
    faulthandler.dump_traceback_later(900, exit=True)
    t0 = time.time()
    sut.setup()
    out = {
        "n": 0,
        "faults": {},
        "probes": {},
        "distinct": {},
        "nontrivial": set(),
        "steps": 0,
        "violations": [],
        "errors": [],
        "digests": {},
        "inproc_mismatch": 0,
        "inproc_checked": 0,
        "samples": [],
        "choices_total": 0,
        "maxima": {},
    }
    for i in indices:
        seed = core.run_seed(verif_seed, prop, i)
        r = execute(prop, seed=seed)
        out["n"] += 1
        out["steps"] += r["steps"]
        out["choices_total"] += len(r["choices"])
        for k, v in r["faults"].items():
            out["faults"][k] = out["faults"].get(k, 0) + v
        for k, v in r["probes"].items():
            out["probes"][k] = out["probes"].get(k, 0) + v
        for k, v in r["maxima"].items():
            out["maxima"][k] = max(out["maxima"].get(k, float("-inf")), v)
        for k, v in r["distinct"].items():
            out["distinct"].setdefault(k, set()).add(hashlib.sha256(str(v).encode()).digest()[:8])
        if r["nontrivial"]:
            out["nontrivial"].add(hashlib.sha256(str(sorted(r["distinct"].items())).encode()).digest()[:10])
        if r["verdict"] == "violation" and len(out["violations"]) < 40:
            out["violations"].append({"run_index": i, "choices": r["choices"], "violation": r["violation"]})
        elif r["verdict"] == "harness_error" and len(out["errors"]) < 5:
            out["errors"].append({"run_index": i, "error": r["error"], "choices": r["choices"]})
        if i in check_idx:
            out["digests"][i] = r["digest"]
            r2 = execute(prop, seed=seed)
            out["inproc_checked"] += 1
            if r2["digest"] != r["digest"] or r2["choices"] != r["choices"]:
                out["inproc_mismatch"] += 1
        if len(out["samples"]) < 1 and r["nontrivial"]:
            out["samples"].append({"run_index": i, "rendered": r["rendered"], "n_choices": len(r["choices"]), "faults": r["faults"]})
    out["wall"] = time.time() - t0
    faulthandler.cancel_dump_traceback_later()
    return out


# ------------------------------------------------------------------- shrinking


def shrink(prop, choices, sig, budget_runs=2000, budget_s=120.0, log=None):
    """Greedy choice-sequence minimisation to a fixed point."""
    t0 = time.time()
    runs = [0]
    best = list(choices)

    def still_fails(cand):
        if runs[0] >= budget_runs or time.time() - t0 > budget_s:
            return False
        runs[0] += 1
        r = execute(prop, replay=cand)
        return r["verdict"] == "violation" and signature(r["violation"]) == sig, r

    def attempt(cand):
        res = still_fails(cand)
        if res is False:
            return None
        ok, r = res
        if ok:
            # keep only the choices actually consumed
            return r["choices"]
        return None

    # normalise: choices as actually consumed
    got = attempt(best)
    if got is None:
        return best, runs[0]
    best = got
    improved = True
    while improved and runs[0] < budget_runs and time.time() - t0 <= budget_s:
        improved = False
        # 1. truncate the tail (zeros are implied)
        lo, hi = 0, len(best)
        while lo < hi:
            mid = (lo + hi) // 2
            got = attempt(best[:mid])
            if got is not None and len(got) <= len(best):
                if got != best:
                    improved = improved or len(got) < len(best) or got < best
                best = got
                hi = min(mid, len(best))
            else:
                lo = mid + 1
        # 2. delete blocks
        for size in (16, 8, 4, 2, 1):
            i = 0
            while i + size <= len(best):
                cand = best[:i] + best[i + size :]
                got = attempt(cand)
                if got is not None and _simpler(got, best):
                    best = got
                    improved = True
                else:
                    i += 1
                if runs[0] >= budget_runs or time.time() - t0 > budget_s:
                    break
        # 3. zero, then halve, then decrement single choices
        for i in range(len(best)):
            if i >= len(best) or best[i] == 0:
                continue
            for newv in (0, best[i] // 2, best[i] - 1):
                if i >= len(best) or newv >= best[i]:
                    continue
                cand = list(best)
                cand[i] = newv
                got = attempt(cand)
                if got is not None and _simpler(got, best):
                    best = got
                    improved = True
                    break
    # strip trailing zeros (implied)
    while best and best[-1] == 0:
        best = best[:-1]
    return best, runs[0]


def _simpler(a, b):
    return (len(a), sum(a), a) < (len(b), sum(b), b)


# --------------------------------------------------------------- known findings


def load_findings(prop):
    path = os.path.join(ROOT, "known_findings.json")
    try:
        with open(path) as f:
            data = json.load(f)
    except FileNotFoundError:
        return []
    return [e for e in data.get("findings", []) if e.get("property") == prop]


def match_finding(findings, viol):
    for e in findings:
        if e.get("status") != "open":
            continue
        m = e.get("match", {})
        if m.get("kind") and m["kind"] != viol["kind"]:
            continue
        if m.get("where_regex") and not re.search(m["where_regex"], viol["where"]):
            continue
        det = json.dumps(viol.get("detail", {}), sort_keys=True)
        if m.get("detail_regex") and not re.search(m["detail_regex"], det):
            continue
        return e
    return None


# ------------------------------------------------------------------------ main


def write_replay(prop, verif_seed, run_index, orig, minimised, rmin, shrink_runs):
    os.makedirs(os.path.join(OUT, "replays"), exist_ok=True)
    path = os.path.join(OUT, "replays", f"{prop}-{verif_seed}-{run_index}.json")
    doc = {
        "property": prop,
        "engine_version": core.ENGINE_VERSION,
        "verif_seed": verif_seed,
        "run_index": run_index,
        "choices": minimised,
        "choice_tags": rmin.get("tags"),
        "rendered": rmin["rendered"],
        "trace": rmin["trace"],
        "violation": rmin["violation"],
        "signature": signature(rmin["violation"]),
        "digest": rmin["digest"],
        "minimised_from": {"choices": len(orig), "shrink_executions": shrink_runs, "original_choices": orig},
        "tree": sut.tree_info(),
        "replay_cmd": f"checks/run {prop} --replay {path}",
    }
    with open(path, "w") as f:
        json.dump(doc, f, indent=1)
    return path


def cmd_replay(prop, path):
    sut.setup()
    with open(path) as f:
        doc = json.load(f)
    prop = doc.get("property", prop)
    if doc.get("deterministic") is False:
        mod = load(prop)
        return mod.replay_nondeterministic(doc)
    r = execute(prop, replay=doc["choices"], capture=True)
    print(f"replay of {path}: verdict={r['verdict']} digest={r['digest']}")
    for ln in (r["trace"] or [])[-40:]:
        print("   ", ln)
    if r["verdict"] == "harness_error":
        print(r["error"])
        print("HARNESS-ERROR during replay")
        return 2
    if r["verdict"] == "ok":
        print("NOT-REPRODUCED: the recorded run passes on this tree")
        return 0
    same = json.dumps(r["violation"], sort_keys=True) == json.dumps(doc["violation"], sort_keys=True)
    print(json.dumps(r["violation"], indent=1))
    print("REPRODUCED exactly" if same and r["digest"] == doc.get("digest") else "REPRODUCED (violation record differs from the recorded one)")
    print(f"VIOLATION property={prop} replay={path}")
    return 1


def cmd_digests(prop, verif_seed, indices):
    sut.setup()
    out = {}
    for i in indices:
        seed = core.run_seed(verif_seed, prop, i)
        a = execute(prop, seed=seed)
        b = execute(prop, seed=seed)
        out[str(i)] = [a["digest"], b["digest"]]
    print("DIGESTS " + json.dumps(out))
    return 0


def fresh_interpreter_digests(prop, verif_seed, indices, hashseed="4242"):
    env = dict(os.environ)
    env["PYTHONHASHSEED"] = hashseed
    env["PYTHONPATH"] = ROOT
    cmd = [sys.executable, "-m", "verifsim.runner", prop, "--digests", ",".join(map(str, indices)), "--seed", str(verif_seed)]
    p = subprocess.run(cmd, capture_output=True, text=True, env=env, timeout=900, cwd=ROOT)
    for ln in p.stdout.splitlines():
        if ln.startswith("DIGESTS "):
            return json.loads(ln[8:])
    raise HarnessError("fresh-interpreter determinism run failed:\n" + p.stdout[-2000:] + p.stderr[-2000:])


def cmd_search(prop, tier, verif_seed, runs=None, workers=None, wall_cap=None, first=0):
    t0 = time.time()
    src = sut.setup()
    mod = load(prop)
    nruns, cap = BUDGET[prop][tier]
    if runs is not None:
        nruns = runs
    if wall_cap is not None:
        cap = wall_cap
    workers = workers or min(16, os.cpu_count() or 1)
    chunk = CHUNK[prop]
    ndet = 24 if tier == "quick" else 200
    stride = max(1, nruns // ndet)
    check_idx = set(range(first, first + nruns, stride))
    jobs = []
    for s in range(first, first + nruns, chunk):
        idx = list(range(s, min(s + chunk, first + nruns)))
        jobs.append((prop, verif_seed, idx, check_idx & set(idx), src))
    print(f"[{prop}] tier={tier} VERIF_SEED={verif_seed} runs={nruns} workers={workers} src={src}", flush=True)

    agg = {
        "n": 0, "faults": {}, "probes": {}, "distinct": {}, "nontrivial": set(), "steps": 0, "violations": [], "errors": [],
        "digests": {}, "inproc_mismatch": 0, "inproc_checked": 0, "samples": [], "choices_total": 0, "cpu_s": 0.0, "maxima": {},
    }
    truncated = False
    broken = None
    ctx = multiprocessing.get_context("fork")
    ex = cf.ProcessPoolExecutor(max_workers=workers, mp_context=ctx)
    try:
        futs = [ex.submit(_chunk, j) for j in jobs]
        pending = set(futs)
        while pending:
            done, pending = cf.wait(pending, timeout=5, return_when=cf.FIRST_COMPLETED)
            for f in done:
                try:
                    o = f.result()
                except cf.CancelledError:
                    continue
                except Exception as e:  # dead worker, timeout dump, ...
                    broken = f"{type(e).__name__}: {e}"
                    continue
                agg["n"] += o["n"]
                agg["steps"] += o["steps"]
                agg["choices_total"] += o["choices_total"]
                agg["cpu_s"] += o["wall"]
                agg["inproc_mismatch"] += o["inproc_mismatch"]
                agg["inproc_checked"] += o["inproc_checked"]
                for k, v in o["faults"].items():
                    agg["faults"][k] = agg["faults"].get(k, 0) + v
                for k, v in o["probes"].items():
                    agg["probes"][k] = agg["probes"].get(k, 0) + v
                for k, v in o["maxima"].items():
                    agg["maxima"][k] = max(agg["maxima"].get(k, float("-inf")), v)
                for k, v in o["distinct"].items():
                    agg["distinct"].setdefault(k, set()).update(v)
                agg["nontrivial"] |= o["nontrivial"]
                agg["violations"].extend(o["violations"])
                agg["errors"].extend(o["errors"])
                agg["digests"].update(o["digests"])
                if len(agg["samples"]) < 3:
                    agg["samples"].extend(o["samples"])
            if broken:
                for f in pending:
                    f.cancel()
                break
            if time.time() - t0 > cap and pending:
                truncated = True
                for f in pending:
                    f.cancel()
                pending = {f for f in pending if not f.cancelled()}
    finally:
        ex.shutdown(wait=True, cancel_futures=True)
    search_wall = time.time() - t0

    status = 0
    # ---- determinism self-test (fresh interpreter, other hash seed, 1 worker)
    det = {"runs": agg["inproc_checked"], "inproc_mismatches": agg["inproc_mismatch"], "fresh_interpreter_runs": 0, "fresh_interpreter_mismatches": 0}
    if agg["digests"] and not broken:
        idx = sorted(agg["digests"])
        if tier == "quick":
            idx = idx[:: max(1, len(idx) // 12)][:12]
        else:
            idx = idx[:: max(1, len(idx) // 60)][:60]
        try:
            fresh = fresh_interpreter_digests(prop, verif_seed, idx)
            det["fresh_interpreter_runs"] = len(fresh)
            for i in idx:
                a, b = fresh[str(i)]
                if a != agg["digests"][i] or b != agg["digests"][i]:
                    det["fresh_interpreter_mismatches"] += 1
        except Exception as e:
            broken = f"determinism self-test could not run: {e}"
    if det["inproc_mismatches"] or det["fresh_interpreter_mismatches"]:
        print(f"HARNESS-ERROR nondeterministic: {det}")
        status = 2

    # ---- extra per-property checks done in the parent (e.g. real pool)
    extra = {}
    if hasattr(mod, "post_search") and not broken:
        try:
            extra = mod.post_search(tier, verif_seed) or {}
        except Exception:
            broken = "post_search failed:\n" + traceback.format_exc()
    extra_violations = extra.pop("violations", [])

    # ---- violations: minimise, write replay, classify
    findings = load_findings(prop)
    by_sig = {}
    for v in sorted(agg["violations"], key=lambda v: (len(v["choices"]), v["run_index"])):
        by_sig.setdefault(signature(v["violation"]), []).append(v)
    reported = []
    known_hit = []
    for sig, lst in sorted(by_sig.items(), key=lambda kv: kv[1][0]["run_index"])[:6]:
        v = lst[0]
        mini, nshr = shrink(prop, v["choices"], sig, budget_runs=2000 if tier == "thorough" else 1200, budget_s=120 if tier == "thorough" else 60)
        rmin = execute(prop, replay=mini, capture=True)
        if rmin["verdict"] != "violation":
            rmin = execute(prop, replay=v["choices"], capture=True)
            mini = v["choices"]
        if rmin["verdict"] != "violation":
            print(f"HARNESS-ERROR violation of run {v['run_index']} does not replay")
            status = 2
            continue
        path = write_replay(prop, verif_seed, v["run_index"], v["choices"], mini, rmin, nshr)
        kf = match_finding(findings, rmin["violation"])
        if kf is not None:
            print(f"KNOWN-FINDING: property={prop} {kf.get('what', '')} (replay={path})")
            known_hit.append(kf.get("id", kf.get("what", "")))
        else:
            print(f"VIOLATION property={prop} replay={path}")
            print(f"    {sig}: {json.dumps(rmin['violation'])[:600]}")
            print(f"    seen in {len(lst)} of {agg['n']} runs; minimised {len(v['choices'])} -> {len(mini)} choices in {nshr} executions")
            reported.append(path)
    for ev in extra_violations:
        print(f"VIOLATION property={prop} replay={ev}")
        reported.append(ev)
    if reported and status == 0:
        status = 1

    if agg["errors"]:
        e = agg["errors"][0]
        print(f"HARNESS-ERROR in run {e['run_index']} (and {len(agg['errors']) - 1} more):\n{e['error']}")
        os.makedirs(os.path.join(OUT, "replays"), exist_ok=True)
        with open(os.path.join(OUT, "replays", f"{prop}-harness-error-{verif_seed}-{e['run_index']}.json"), "w") as f:
            json.dump(e, f)
        # Harness errors in SOME runs do not un-happen a violation that was minimised and
        # reproduced by replay in another run: that stays exit 1 (both are printed).  Without a
        # confirmed violation the batch is unreliable: exit 2.
        if not (reported and status == 1):
            status = 2
    if broken:
        print(f"HARNESS-ERROR {broken}")
        status = 2
    if agg["n"] == 0:
        print("HARNESS-ERROR no run completed")
        status = 2

    wall = time.time() - t0
    zero_probes = [p for p in getattr(mod, "EXPECTED_FAULTS", []) if not agg["faults"].get(p)]
    if zero_probes:
        print(f"[{prop}] warning: fault kinds that never fired in this batch: {zero_probes}")
    evidence = {
        "property_id": prop,
        "tier": tier,
        "seed": int(verif_seed),
        "level": "exploration",
        "coverage": {
            "evaluations": agg["n"],
            "distinct_nontrivial": len(agg["nontrivial"]),
            "rule": mod.RULE,
            "samples": agg["samples"][:3],
            "runs_planned": nruns,
            "truncated_by_wall_cap": truncated,
            "runs_per_hour": int(agg["n"] / max(search_wall, 1e-9) * 3600),
            "seeds": {"verif_seed": int(verif_seed), "first_run_index": first, "last_run_index": first + nruns - 1, "run_seed": "sha256(VERIF_SEED:property:run_index)[:8]"},
            "scheduler_steps": agg["steps"],
            "choices_drawn": agg["choices_total"],
            "simulated_time": mod.SIMULATED_TIME_NOTE,
            "faults_fired": dict(sorted(agg["faults"].items())),
            "fault_kinds_never_fired": zero_probes,
            "probes": dict(sorted(agg["probes"].items())),
            "distinct": {k: len(v) for k, v in sorted(agg["distinct"].items())},
            "maxima": {k: v for k, v in sorted(agg["maxima"].items())},
            "real_components": mod.REAL_COMPONENTS,
            "stub_components": mod.STUB_COMPONENTS,
            "determinism_selftest": det,
            "known_findings_hit": known_hit,
            "workers": workers,
            "cpu_seconds": round(agg["cpu_s"], 1),
            "tree": sut.tree_info(),
            **extra,
        },
        "assumptions": mod.ASSUMPTIONS,
        "wall_s": round(wall, 2),
        "violations": len(reported),
    }
    os.makedirs(os.path.join(OUT, "evidence"), exist_ok=True)
    with open(os.path.join(OUT, "evidence", f"{prop}.json"), "w") as f:
        json.dump(evidence, f, indent=1, sort_keys=False)
    print(
        f"[{prop}] {agg['n']} runs ({len(agg['nontrivial'])} distinct non-trivial) in {wall:.1f}s, "
        f"{evidence['coverage']['runs_per_hour']} runs/h, violations={len(reported)} known={len(known_hit)} "
        f"determinism={det} exit={status}",
        flush=True,
    )
    return status


def main(argv=None):
    ap = argparse.ArgumentParser()
    ap.add_argument("prop", choices=sorted(PROPS))
    ap.add_argument("--tier", default=os.environ.get("VERIF_TIER") or "quick", choices=["quick", "thorough"])
    ap.add_argument("--seed", type=int, default=None)
    ap.add_argument("--runs", type=int, default=None)
    ap.add_argument("--first", type=int, default=0)
    ap.add_argument("--workers", type=int, default=None)
    ap.add_argument("--wall-cap", type=float, default=None)
    ap.add_argument("--replay")
    ap.add_argument("--digests")
    a = ap.parse_args(argv)
    seed = a.seed
    if seed is None:
        try:
            seed = int(os.environ.get("VERIF_SEED", "0") or 0)
        except ValueError:
            seed = int.from_bytes(hashlib.sha256(os.environ["VERIF_SEED"].encode()).digest()[:4], "big")
    if a.replay:
        return cmd_replay(a.prop, a.replay)
    if a.digests:
        return cmd_digests(a.prop, seed, [int(x) for x in a.digests.split(",") if x])
    return cmd_search(a.prop, a.tier, seed, a.runs, a.workers, a.wall_cap, a.first)


if __name__ == "__main__":
    try:
        rc = main()
    except SystemExit:
        raise
    except BaseException:
        traceback.print_exc()
        print("HARNESS-ERROR uncaught exception in the runner")
        rc = 2
    sys.exit(rc)
