"""
C16 - loads-analysis bookkeeping over every history (DESIGN.md section 4).

A simulated loads-analysis campaign: events x cases recovered in a
scheduler-chosen order into shared DR_Results/DR_Event state, inspected,
merged, enveloped, split and re-merged, with uncertainty factors applied
through a shared cache - checked operation by operation against a brute-force
reference model that keeps every raw response.
"""

import contextlib
import copy
import io
import time as _time
from types import SimpleNamespace

import numpy as np

from . import sut
from .core import Violation, HarnessError

PROPERTY = "C16"
TOL = 1e-9

UFS = [
    (1, 1, 1, 1),
    (1, 1, 1.25, 1),
    (0, 1, 1.25, 1),
    (1, 1, 0, 1),
    (1, 1, 1, 0),
    (1.1, 0.9, 1.2, 1.05),
    (2, 1, 1, 1),
    (1, 3, 1, 1),
    # two tuples that agree in every product (ruf*suf, euf*duf, euf*suf) and differ in suf
    # alone - the forces sol.pg are scaled by suf only
    (1.2, 1.2, 1, 1),
    (1, 1, 1.2, 1.2),
]

_mods = None


def modules():
    global _mods
    if _mods is None:
        sut.setup()
        from pyyeti import cla, ode, srs
        import pyyeti.cla.dr_results as drr

        _mods = SimpleNamespace(cla=cla, ode=ode, srs=srs, drr=drr)
        sut.reset_module_state()  # records the import-time state of the package
    return _mods


# ------------------------------------------------------------------- helpers


# Round-off floor for campaign comparisons.  A response can be (almost) exactly zero -
# uncertainty factors of 0, cancelling terms - while system and model, which associate the
# same arithmetic differently, leave residues of the order of eps x the NATURAL magnitude of
# the recovery (|matrices| x |modal solution|).  A purely relative test against such a
# residue is a false alarm (met twice in a 900 000-run thorough batch: SRS of a response that
# is 4e-16 in the model and 0.0 in the system).  While an event is being checked every scale
# is therefore at least 1e-6 x that natural magnitude, i.e. differences below ~1e-15 x natural
# magnitude are round-off.  0 outside campaigns.
_FLOOR = [0.0]


def _scale(*arrs):
    s = _FLOOR[0]
    for a in arrs:
        a = np.asarray(a)
        if a.size:
            with np.errstate(all="ignore"):
                m = np.nanmax(np.abs(a)) if np.isfinite(a).any() else 0.0
            if np.isfinite(m):
                s = max(s, float(m))
    return max(s, 1e-300)


def _close(got, exp, tol=TOL, scale=None):
    """None if equal within tol*scale (NaN == NaN), else a reason string."""
    got = np.asarray(got)
    exp = np.asarray(exp)
    if got.shape != exp.shape:
        return f"shape {got.shape} != {exp.shape}"
    if got.size == 0:
        return None
    if scale is None:
        scale = _scale(exp)
    ng = np.isnan(got)
    ne = np.isnan(exp)
    if not np.array_equal(ng, ne):
        i = int(np.flatnonzero((ng != ne).ravel())[0])
        return f"NaN pattern differs at flat index {i}: got {got.ravel()[i]!r}, expected {exp.ravel()[i]!r}"
    with np.errstate(all="ignore"):
        bad = (np.abs(got - exp) > tol * scale) & ~ng
        # infinities must match exactly
        inf = np.isinf(got) | np.isinf(exp)
        bad = np.where(inf, got != exp, bad)
    if bad.any():
        i = int(np.flatnonzero(bad.ravel())[0])
        return f"flat index {i}: got {got.ravel()[i]!r}, expected {exp.ravel()[i]!r} (tol {tol:g} x scale {scale:g})"
    return None


def _need(reason, kind, where, **kw):
    if reason is not None:
        raise Violation(kind, where, reason=reason, **kw)


@contextlib.contextmanager
def _quiet():
    buf = io.StringIO()
    with contextlib.redirect_stdout(buf):
        yield


class _Sut:
    """Wrap calls into pyYeti: an exception on an in-domain input is a violation."""

    def __init__(self, where, **ctx):
        self.where = where
        self.ctx = ctx

    def __enter__(self):
        return self

    def __exit__(self, et, ev, tb):
        if et is None or issubclass(et, (Violation, HarnessError)):
            return False
        if issubclass(et, Exception):
            raise Violation("sut_exception", self.where, exception=f"{et.__name__}: {str(ev)[:300]}", **self.ctx) from ev
        return False


# --------------------------------------------------- simulated file system
#
# cla.save / cla.load (pyyeti.ytools.save/load) resolve the name `open` in the
# module pyyeti.ytools; that name is the seam: for the duration of a run it is
# bound to SimFS.open, an in-memory file system.  What has been written and
# closed is durable; everything else (the live DR_Results of an event) is lost
# by a simulated crash.


class _SimFile(io.BytesIO):
    def __init__(self, fs, name, data=b"", write=False):
        super().__init__(data if not write else b"")
        self._fs, self._name, self._write = fs, name, write

    def close(self):
        if self._write and not self.closed:
            self._fs.files[self._name] = self.getvalue()
        super().close()


class SimFS:
    def __init__(self):
        self.files = {}
        self.writes = 0
        self.reads = 0

    def open(self, name, mode="r", *a, **k):
        if "b" not in mode:
            raise HarnessError(f"SimFS: text-mode open of {name!r} not modelled")
        if "w" in mode:
            self.writes += 1
            return _SimFile(self, name, write=True)
        if name not in self.files:
            raise FileNotFoundError(name)
        self.reads += 1
        return _SimFile(self, name, self.files[name])

    @contextlib.contextmanager
    def mounted(self, M):
        import pyyeti.ytools as yt

        had = "open" in vars(yt)
        old = vars(yt).get("open")
        yt.open = self.open
        try:
            yield self
        finally:
            if had:
                yt.open = old
            else:
                del yt.open


def fs_roundtrip(M, fs, name, obj, where):
    """cla.save then cla.load through the simulated file system."""
    with fs.mounted(M):
        with _Sut(f"cla.save({where})"):
            M.cla.save(name, obj)
        with _Sut(f"cla.load({where})"):
            return M.cla.load(name)


# ------------------------------------------------- reference model: apply_uf


def ref_apply_uf(sol, uf, m, b, k, nrb, rfmodes):
    """The documented table, written out directly (dense matrices)."""
    ruf, euf, duf, suf = uf
    n = sol.a.shape[0]
    M = np.eye(n) if m is None else (np.diag(m) if m.ndim == 1 else m)
    B = np.diag(b) if b.ndim == 1 else b
    K = np.diag(k) if k.ndim == 1 else k
    rf = np.zeros(n, bool)
    if rfmodes is not None:
        rf[np.asarray(rfmodes)] = True
    rb = np.zeros(n, bool)
    rb[:nrb] = True
    el = ~rb & ~rf
    out = SimpleNamespace(**{k_: v for k_, v in vars(sol).items()})
    a = sol.a.copy()
    v = sol.v.copy()
    a[rb] *= ruf * suf
    v[rb] *= ruf * suf
    a[el] *= euf * duf
    v[el] *= euf * duf
    a[rf] = 0.0
    v[rf] = 0.0
    ds = np.zeros_like(sol.a)
    dd = np.zeros_like(sol.a)
    if el.any():
        Kee = K[np.ix_(el, el)]
        av = M[np.ix_(el, el)] @ sol.a[el] + B[np.ix_(el, el)] @ sol.v[el]
        F = av + Kee @ sol.d[el]
        ds[el] = euf * suf * np.linalg.solve(Kee, F)
        dd[el] = -euf * duf * np.linalg.solve(Kee, av)
    if rf.any():
        Krr = K[np.ix_(rf, rf)]
        ds[rf] = euf * suf * np.linalg.solve(Krr, Krr @ sol.d[rf])
    out.a = a
    out.v = v
    out.d_static = ds
    out.d_dynamic = dd
    out.d = ds + dd
    if hasattr(sol, "pg"):
        out.pg = sol.pg * suf
    return out


def ref_frf_apply_uf(sol, uf, nrb):
    ruf, euf, duf, suf = uf
    out = SimpleNamespace(**{k_: v for k_, v in vars(sol).items()})
    for nm in ("a", "v", "d"):
        x = getattr(sol, nm).copy()
        x[:nrb] *= ruf * suf
        x[nrb:] *= euf * duf
        setattr(out, nm, x)
    if hasattr(sol, "pg"):
        out.pg = sol.pg * suf
    return out


# ------------------------------------------------------------- world drawing


def draw_modal(ch, rng, nmax=6):
    """A small modal model: (n, nrb, rfmodes, m, b, k) with block structure.
    The structure is drawn through `ch`; `revalue(rng)` gives another model of
    the same structure with fresh numbers (another event's system modes)."""
    nrb = ch.weighted([3, 2, 2], "nrb")
    nel = ch.weighted([1, 3, 3, 2], "nel")
    nrf = ch.weighted([4, 2, 1], "nrf")
    if nel + nrf == 0 and nrb == 0:
        nel = 1
    n = nrb + nel + nrf
    rfmodes = None
    el_idx = np.arange(nrb, nrb + nel)
    rf_idx = np.arange(nrb + nel, n)
    if nrf and nel:
        # residual-flexibility modes need not be last: directly after the rigid-body modes,
        # or interspersed with the elastic modes (the elastic partition is then an index
        # array instead of a slice inside apply_uf)
        arr = ch.weighted([4, 1, 2], "rf_arrangement")
        if arr == 1:
            rf_idx = np.arange(nrb, nrb + nrf)
            el_idx = np.arange(nrb + nrf, n)
        elif arr == 2:
            pos = np.arange(nrb, n)
            pick = np.sort(rng.permutation(nel + nrf)[:nrf])
            rf_idx = pos[pick]
            el_idx = np.setdiff1d(pos, rf_idx)
    if nrf:
        rfmodes = rf_idx.copy()
        if ch.flip(1, 3, "rf_as_mask"):
            mask = np.zeros(n, bool)
            mask[rfmodes] = True
            rfmodes = mask
    full_k = ch.flip(1, 3, "full_k")
    full_b = ch.flip(1, 3, "full_b")
    mkind = ch.weighted([2, 2, 1], "mkind")  # None, vector, full
    diag2d = ch.flip(1, 4, "diag_as_2d")  # uncoupled matrices handed over as 2-D (diagonal) arrays
    forder = ch.flip(1, 3, "matrices_F_ordered")
    desc = dict(n=n, nrb=nrb, nel=nel, nrf=nrf, full_k=full_k, full_b=full_b, mkind=mkind, rf_mask=rfmodes is not None and rfmodes.dtype == bool, rf_at=[int(i) for i in rf_idx] if nrf else [])

    def values(rng):
        w = rng.uniform(5.0, 60.0, n)
        w[:nrb] = 0.0
        kd = w**2
        bd = 2 * 0.02 * w
        md = rng.uniform(0.5, 2.0, n) if mkind else np.ones(n)

        def block_full(diag, idx, amt, A=None):
            """Couple the DOF listed in `idx` with each other (symmetric, off-diagonal)."""
            if A is None:
                A = np.diag(diag).astype(float)
            sz = len(idx)
            if sz > 1:
                q = rng.standard_normal((sz, sz)) * amt
                q = (q + q.T) / 2
                np.fill_diagonal(q, 0.0)
                s_ = np.sqrt(np.abs(np.outer(diag[idx], diag[idx])))
                A[np.ix_(idx, idx)] += q * s_
            return A

        k = kd
        if full_k:
            k = block_full(kd, el_idx, 0.1)
            if nrf > 1:
                k = block_full(kd, rf_idx, 0.1, k)
        b = bd
        if full_b:
            b = block_full(bd, el_idx, 0.2)
        m = None
        if mkind == 1:
            m = md
        elif mkind == 2:
            m = block_full(md, el_idx, 0.1)
        if forder:
            # column-major 2-D matrices (as read from OUTPUT4 / MATLAB files): a partition of
            # such a matrix can be a view where the C-ordered one gives a copy
            k, b = (np.asfortranarray(x) if np.ndim(x) == 2 else x for x in (k, b))
            if m is not None and np.ndim(m) == 2:
                m = np.asfortranarray(m)
        if diag2d:
            k = np.diag(k) if np.ndim(k) == 1 else k
            b = np.diag(b) if np.ndim(b) == 1 else b
            if m is not None and np.ndim(m) == 1:
                m = np.diag(m)
        mod = SimpleNamespace(n=n, nrb=nrb, nel=nel, nrf=nrf, rfmodes=rfmodes, m=m, b=b, k=k, desc=dict(desc, diag2d=diag2d))
        mod.revalue = values

        def redesignate(rng_):
            """The SAME matrix objects with other modes designated residual-flexibility modes
            (same counts; only without coupling, so that every partition is block-diagonal)."""
            if nrf == 0 or nel == 0 or full_k or full_b or mkind == 2:
                return None
            pos = np.arange(nrb, n)
            new_rf = pos[np.sort(rng_.permutation(nel + nrf)[:nrf])]
            if rfmodes is not None and rfmodes.dtype == bool:
                rfm = np.zeros(n, bool)
                rfm[new_rf] = True
            else:
                rfm = new_rf
            m2 = SimpleNamespace(**{k_: v_ for k_, v_ in vars(mod).items()})
            m2.rfmodes = rfm
            m2.desc = dict(mod.desc, rf_at=[int(i) for i in new_rf])
            m2.revalue = values
            m2.redesignate = redesignate
            return m2

        mod.redesignate = redesignate
        return mod

    return values(rng)


def draw_uf(ch, tag="uf"):
    return UFS[ch.draw(len(UFS), tag)]


# -------------------------------------------------------------- scenario: uf


def scenario_uf(ch, tr, st):
    """apply_uf call sequences sharing one cache vs cold calls vs the table."""
    M = modules()
    rng = ch.data_rng()
    mod = draw_modal(ch, rng)
    nt = 2 + ch.draw(8, "nt")
    cplx = ch.flip(1, 5, "complex_sol")
    quant = ch.flip(1, 4, "quantised")

    def mk(shape):
        x = rng.integers(-4, 5, shape).astype(float) if quant else rng.standard_normal(shape)
        if cplx:
            x = x + 1j * rng.standard_normal(shape)
        return x

    ncalls = 1 + ch.draw(6, "ncalls")
    seq = [draw_uf(ch) for _ in range(ncalls)]
    use_event = ch.flip(1, 3, "via_DR_Event")
    # one DR_Event lives through several solutions (load cases / events), possibly
    # with different system matrices of the same structure
    ncycles = 1 + ch.weighted([3, 2, 1], "uf_cycles")
    revalue = ncycles > 1 and ch.flip(1, 2, "uf_model_varies")
    has_pg = ch.flip(2, 3, "has_pg")
    st.rendered.update(scenario="uf_calls", modal=mod.desc, nt=nt, complex=cplx, ufs=[list(u) for u in seq], via_DR_Event=use_event, cycles=ncycles, model_varies=revalue)
    tr.shape("uf", mod.n, mod.nrb, mod.nel, mod.nrf, mod.desc["full_k"], mod.desc["full_b"], mod.desc["mkind"], len(seq), use_event, ncycles, revalue)
    if len(set(seq)) < len(seq):
        st.fault("cache_reuse_repeat_uf")
    if ncalls >= 3:
        st.fault("cache_reuse")
    if ncycles > 1:
        st.fault("uf_several_solutions")
    if revalue:
        st.fault("model_varies_between_events")
    st.nontrivial = ncalls >= 2 or ncycles >= 2
    st.steps = ncalls * ncycles
    st.distinct["histories"] = tr.shape_digest() + str(seq)
    DR = None
    if use_event:
        DR = M.cla.DR_Event()
        DR.UF_reds = list(dict.fromkeys(seq))
    mod0 = mod
    for cyc in range(ncycles):
        mod = mod0.revalue(rng) if (revalue and cyc > 0) else mod0
        if cyc > 0 and not revalue and ch.flip(1, 2, "redesignate_rf"):
            # same matrices (same objects), other modes treated as residual flexibility
            alt = mod0.redesignate(rng)
            if alt is not None:
                mod = alt
                st.fault("rf_redesignated_same_matrices")
        sol = SimpleNamespace(a=mk((mod.n, nt)), v=mk((mod.n, nt)), d=mk((mod.n, nt)))
        if has_pg:
            sol.pg = mk((2, nt))
        sol.t = np.arange(nt) * 0.01
        pristine = copy.deepcopy(sol)
        mats = copy.deepcopy((mod.m, mod.b, mod.k))
        tr.ev("ufseq", cyc, seq, sol.a, sol.v, sol.d)
        outs = []
        if use_event:
            with _Sut("DR_Event.apply_uf", cycle=cyc):
                so = DR.apply_uf(sol, mod.m, mod.b, mod.k, mod.nrb, mod.rfmodes)
            outs = [(u, so[u]) for u in DR.UF_reds]
        else:
            save = {}
            for i, u in enumerate(seq):
                with _Sut(f"cla.apply_uf call {i}", cycle=cyc):
                    outs.append((u, M.cla.apply_uf(sol, u, mod.m, mod.b, mod.k, mod.nrb, mod.rfmodes, save)))
        _check_uf_outs(M, st, tr, mod, outs, pristine, mats, seq, cyc)
    # the caller's solution is handed on to the next consumer: it must still be usable
    st.probe("uf_sequences")


def _check_uf_outs(M, st, tr, mod, outs, pristine, mats, seq, cyc):
    for i, (u, warm) in enumerate(outs):
        with _Sut("cla.apply_uf cold"):
            cold = M.cla.apply_uf(copy.deepcopy(pristine), u, *copy.deepcopy(mats), mod.nrb, mod.rfmodes, None)
        ref = ref_apply_uf(pristine, u, mats[0], mats[1], mats[2], mod.nrb, None if mod.rfmodes is None else (np.flatnonzero(mod.rfmodes) if mod.rfmodes.dtype == bool else mod.rfmodes))
        sc = _scale(pristine.a, pristine.v, pristine.d)
        for f in ("a", "v", "d", "d_static", "d_dynamic", "pg"):
            if not hasattr(ref, f):
                continue
            if not hasattr(warm, f):
                raise Violation("uf_missing_field", f"apply_uf.{f}", call=i, cycle=cyc, uf=list(u))
            w = getattr(warm, f)
            _need(_close(w, getattr(cold, f), 1e-12, sc), "uf_cache_dependent", f"apply_uf.{f}", call=i, cycle=cyc, uf=list(u), history=[list(x) for x in seq[: i + 1]])
            tol = 1e-12 if f in ("a", "v", "pg") else 1e-9
            _need(_close(w, getattr(ref, f), tol, sc), "uf_table_wrong", f"apply_uf.{f}", call=i, cycle=cyc, uf=list(u))
        _need(_close(warm.d, warm.d_static + warm.d_dynamic, 1e-15, sc), "uf_d_not_sum", "apply_uf.d", call=i, cycle=cyc, uf=list(u))
        if tuple(u) == (1, 1, 1, 1):
            # unit factors: a, v unchanged (rf excepted), d of non-rb modes unchanged
            rfi = np.zeros(mod.n, bool)
            if mod.rfmodes is not None:
                rfi[mod.rfmodes if mod.rfmodes.dtype != bool else np.flatnonzero(mod.rfmodes)] = True
            for f in ("a", "v"):
                _need(_close(getattr(warm, f)[~rfi], getattr(pristine, f)[~rfi], 0.0, 1.0), "uf_unit_changes_solution", f"apply_uf.{f}", call=i, cycle=cyc)
            nonrb = np.arange(mod.n) >= mod.nrb
            _need(_close(warm.d[nonrb], pristine.d[nonrb], 1e-9, sc), "uf_unit_changes_solution", "apply_uf.d", call=i, cycle=cyc)
            st.probe("unit_uf_checked")
        tr.ev("ufout", i, warm.a, warm.v, warm.d)


# -------------------------------------------------------- scenario: extrema


def _plant_inf(ch, vals, r, cols):
    """An overflowed response: +/-inf in a max/min table row (kept consistent: max >= min)."""
    k = ch.draw(4, "inf_kind")
    if cols == 1:
        vals[r, 0] = np.inf if k % 2 == 0 else -np.inf
    elif k == 0:
        vals[r, 0] = np.inf
    elif k == 1:
        vals[r, 1] = -np.inf
    elif k == 2:
        vals[r, :] = np.inf
    else:
        vals[r, :] = -np.inf


def scenario_extrema(ch, tr, st):
    """Direct cla.extrema folds of 1- and 2-column mm sequences."""
    M = modules()
    cla = M.cla
    rows = 1 + ch.draw(3, "rows")
    cols = 1 + ch.draw(2, "cols")
    n = 1 + ch.draw(5, "ncases")
    with_x = ch.flip(2, 3, "with_x")
    mixed_x = ch.flip(1, 3, "mixed_x")  # some cases come with abscissae, some without
    with_casenum = ch.flip(1, 2, "with_casenum")
    list_labels = ch.flip(1, 3, "list_labels")
    nan_ok = ch.flip(1, 3, "nan_on")
    # tables "computed elsewhere" may be integer arrays (hand-entered values); other cases
    # then carry half-integers so that a table that silently stays integer shows
    int_tables = ch.flip(1, 4, "int_tables")
    cur = SimpleNamespace(ext=None, ext_x=None, maxcase=None, mincase=None)
    if with_casenum:
        cur.mx = np.zeros((rows, n))
        cur.mn = np.zeros((rows, n))
        cur.mx_x = np.zeros((rows, n))
        cur.mn_x = np.zeros((rows, n))
    hist = []
    st.rendered.update(scenario="extrema_calls", rows=rows, cols=cols, with_x=with_x, with_casenum=with_casenum, list_labels=list_labels)
    tr.shape("extrema", rows, cols, n, with_x, with_casenum, list_labels)
    if cols == 1:
        st.fault("one_column_ext")
    ops = []
    st.rendered["ops"] = ops
    for j in range(n):
        vals = np.array([[float(ch.draw(11, "val") - 5) for _ in range(cols)] for _ in range(rows)])
        if cols == 2:
            vals = np.column_stack((vals.max(axis=1), vals.min(axis=1)))
        isnan = np.zeros((rows, cols), bool)
        if nan_ok and j > 0 or nan_ok and n == 1:
            pass
        if nan_ok:
            for r in range(rows):
                if ch.flip(1, 6, "nan"):
                    vals[r, :] = np.nan
                    st.fault("nan_cells")
                elif ch.flip(1, 10, "inf"):
                    _plant_inf(ch, vals, r, cols)
                    st.fault("inf_cells")
        xs = None
        if (ch.flip(1, 2, "x_this_case") if mixed_x else with_x):
            xs = np.array([[float(10 * j + c + 100 * r) for c in range(cols)] for r in range(rows)])
        if mixed_x:
            st.fault("mixed_abscissa")
        if list_labels:
            maxcase = [f"c{j}r{r}" for r in range(rows)]
            mincase = [f"c{j}r{r}m" for r in range(rows)] if cols == 2 and ch.flip(1, 2, "mincase_given") else None
        else:
            maxcase = f"c{j}"
            mincase = f"c{j}m" if cols == 2 and ch.flip(1, 3, "mincase_given") else None
        as_int = False
        if int_tables:
            if np.isfinite(vals).all() and ch.flip(1, 2, "int_this_case"):
                as_int = True
                st.fault("integer_table")
            elif ch.flip(1, 2, "half_this_case"):
                vals = vals + 0.5 if cols == 1 else vals + np.array([0.5, -0.5])
        mm = SimpleNamespace(ext=vals.astype(np.int64) if as_int else vals.copy(), ext_x=None if xs is None else (xs.astype(np.int64) if as_int else xs.copy()))
        ops.append({"ext": vals.tolist(), "maxcase": maxcase, "mincase": mincase, "int": as_int})
        with _Sut(f"cla.extrema call {j}"):
            cla.extrema(cur, mm, maxcase, mincase, j if with_casenum else None)
        hist.append((vals, xs, maxcase, mincase))
        _check_extrema_fold(cur, hist, rows, cols, with_x or mixed_x, with_casenum, j)
        tr.ev("fold", j, vals, cur.ext)
    st.rendered["ops"] = ops
    st.steps = n
    vals_all = np.array([h[0] for h in hist])
    if n >= 2:
        for r in range(rows):
            col = vals_all[:, r, 0]
            f = col[~np.isnan(col)]
            if f.size and (np.abs(f) == np.abs(f).max()).sum() > 1:
                st.fault("ties")
    st.nontrivial = n >= 2
    st.distinct["histories"] = tr.shape_digest() + str(vals_all.tolist())


def _lbl(case, r):
    return case if isinstance(case, str) else case[r]


def _check_extrema_fold(cur, hist, rows, cols, with_x, with_casenum, j, where=None):
    where = where or f"cla.extrema[{cols}col]"
    if cur.ext is None or np.shape(cur.ext) != (rows, 2):
        raise Violation("extrema_shape", where, got=str(np.shape(cur.ext)))
    if cur.ext_x is not None and np.shape(cur.ext_x) != (rows, 2):
        raise Violation("extrema_abscissa", f"{where}.ext_x", got_shape=str(np.shape(cur.ext_x)), expected_shape=str((rows, 2)), history=[h_[0].tolist() for h_ in hist], xs=[("none" if h_[1] is None else h_[1].tolist()) for h_ in hist])
    for r in range(rows):
        # candidates: (value, x, label) per column semantics
        if cols == 2:
            cmax = [(h[0][r, 0], None if h[1] is None else h[1][r, 0], _lbl(h[2], r)) for h in hist]
            cmin = [(h[0][r, 1], None if h[1] is None else h[1][r, 1], _lbl(h[3] if h[3] is not None else h[2], r)) for h in hist]
            key_max = lambda v: v
            key_min = lambda v: -v
        else:
            cmax = [(h[0][r, 0], None if h[1] is None else h[1][r, 0], _lbl(h[2], r)) for h in hist]
            cmin = cmax
            key_max = lambda v: abs(v)  # sign-keeping absolute maximum
            key_min = lambda v: -abs(v)  # sign-keeping absolute minimum
        for col, cands, key, name in ((0, cmax, key_max, "max"), (1, cmin, key_min, "min")):
            fin = [c for c in cands if not np.isnan(c[0])]
            got = cur.ext[r, col]
            label = (cur.maxcase if col == 0 else cur.mincase)[r]
            gx = None if cur.ext_x is None else cur.ext_x[r, col]
            if not fin:
                if not np.isnan(got):
                    raise Violation("extrema_value", f"{where}.{name}", row=r, got=repr(got), expected="nan", history=[repr(c[0]) for c in cands])
                continue
            best = max(key(c[0]) for c in fin)
            att = [c for c in fin if key(c[0]) == best]
            if not any(got == c[0] for c in att):
                raise Violation(
                    "extrema_value", f"{where}.{name}", row=r, got=repr(float(got)), expected=sorted({repr(float(c[0])) for c in att}),
                    history=[repr(float(c[0])) for c in cands], step=j,
                )
            att = [c for c in att if c[0] == got]
            if label not in [c[2] for c in att]:
                raise Violation("extrema_case_label", f"{where}.{name}case", row=r, got=label, acceptable=[c[2] for c in att], history=[repr(float(c[0])) for c in cands])
            if with_x:
                # the abscissa of an attaining case with the reported label; a case that
                # came without abscissae has none (NaN, or no table at all)
                okx = [c[1] for c in att if c[2] == label]
                good = False
                for ox in okx:
                    if ox is None:
                        good = good or gx is None or np.isnan(gx)
                    else:
                        good = good or (gx is not None and gx == ox)
                if not good:
                    raise Violation("extrema_abscissa", f"{where}.ext_x", row=r, col=col, got=repr(gx), acceptable=[("nan" if o is None else o) for o in okx], history=[repr(float(c[0])) for c in cands], xs=[("none" if c[1] is None else c[1]) for c in cands])
    if with_casenum:
        for jj, h in enumerate(hist):
            exp_mx = h[0][:, 0]
            exp_mn = h[0][:, 1] if cols == 2 else h[0][:, 0]
            _need(_close(cur.mx[:, jj], exp_mx, 0.0, 1.0), "extrema_percase", where + ".mx", case=jj)
            _need(_close(cur.mn[:, jj], exp_mn, 0.0, 1.0), "extrema_percase", where + ".mn", case=jj)
            if with_x:
                ex0 = np.full(rows, np.nan) if h[1] is None else h[1][:, 0]
                ex1 = np.full(rows, np.nan) if h[1] is None else h[1][:, -1]
                _need(_close(cur.mx_x[:, jj], ex0, 0.0, 1.0), "extrema_percase", where + ".mx_x", case=jj)
                _need(_close(cur.mn_x[:, jj], ex1, 0.0, 1.0), "extrema_percase", where + ".mn_x", case=jj)



# ------------------------------------------------ scenario: external max/min


def scenario_external(ch, tr, st):
    """Results computed elsewhere (DR_Results.add_maxmin, one or two columns)
    enveloped over events with form_extreme - the public path to the
    one-column branch of cla.extrema."""
    M = modules()
    cla = M.cla
    rows = 1 + ch.draw(3, "rows")
    cols = 1 + ch.draw(2, "cols")
    nev = 1 + ch.draw(5, "nevents")
    with_x = ch.flip(1, 2, "with_x")
    mixed_x = ch.flip(1, 3, "mixed_x")
    list_labels = ch.flip(1, 3, "list_labels")
    nan_ok = ch.flip(1, 4, "nan_on")
    int_tables = ch.flip(1, 4, "int_tables")
    doappend = [2, 0, 1, 3][ch.draw(4, "doappend")]
    use_merge = ch.flip(1, 2, "use_merge")
    ncat = 1 + ch.draw(2, "ncat")
    drdefs = cla.DR_Def({"se": 0})
    for c in range(ncat):
        drdefs.add(name=f"ext{c}", labels=[f"ext{c} r{i}" for i in range(rows)], drfunc="no-func")
    DR = cla.DR_Event()
    DR.add(None, drdefs)
    st.rendered.update(scenario="external_maxmin", rows=rows, cols=cols, nevents=nev, with_x=with_x, list_labels=list_labels, doappend=doappend, ncat=ncat)
    tr.shape("external", rows, cols, nev, with_x, list_labels, doappend, ncat, use_merge)
    st.fault("external_maxmin")
    if cols == 1:
        st.fault("one_column_ext")
    ops = []
    st.rendered["ops"] = ops
    tree = cla.DR_Results()
    hist = {f"ext{c}": [] for c in range(ncat)}
    results = []
    for e in range(nev):
        name = f"E{e}"
        with _Sut("DR_Event.prepare_results"):
            res = DR.prepare_results("mission", name)
        for c in range(ncat):
            cat = f"ext{c}"
            vals = np.array([[float(ch.draw(11, "val") - 5) for _ in range(cols)] for _ in range(rows)])
            if cols == 2:
                vals = np.column_stack((vals.max(axis=1), vals.min(axis=1)))
            if nan_ok:
                for r in range(rows):
                    if ch.flip(1, 6, "nan"):
                        vals[r, :] = np.nan
                        st.fault("nan_cells")
                    elif ch.flip(1, 10, "inf"):
                        _plant_inf(ch, vals, r, cols)
                        st.fault("inf_cells")
            xs = None
            if (ch.flip(1, 2, "x_this_event") if mixed_x else with_x):
                xs = np.array([[float(10 * e + k + 100 * r) for k in range(cols)] for r in range(rows)])
            if mixed_x:
                st.fault("mixed_abscissa")
            if list_labels:
                maxcase = [f"E{e}r{r}" for r in range(rows)]
                mincase = [f"E{e}r{r}m" for r in range(rows)] if cols == 2 and ch.flip(1, 2, "mincase_given") else None
            else:
                maxcase = f"E{e}case"
                mincase = f"E{e}casem" if cols == 2 and ch.flip(1, 3, "mincase_given") else None
            given = vals.copy()
            given_x = None if xs is None else xs.copy()
            if int_tables:
                if np.isfinite(vals).all() and ch.flip(1, 2, "int_this_event"):
                    # "2d array_like": an integer array, or a nested list of ints
                    given = vals.astype(np.int64) if ch.flip(1, 2, "int_as_array") else [[int(v) for v in row] for row in vals]
                    given_x = None if xs is None else xs.astype(np.int64)
                    st.fault("integer_table")
                elif ch.flip(1, 2, "half_this_event"):
                    vals = vals + 0.5 if cols == 1 else vals + np.array([0.5, -0.5])
                    given = vals.copy()
            if ch.flip(1, 4, "maxmin_supplied_twice"):
                # the category is supplied twice: what was given first (other values, with
                # abscissae) is replaced as a whole by the second call
                junk = np.sort(np.array([[float(ch.draw(11, "val0") - 5) for _ in range(cols)] for _ in range(rows)]), axis=1)[:, ::-1]
                jx = np.array([[float(7 + k + 100 * r) for k in range(cols)] for r in range(rows)])
                with _Sut("DR_Results.add_maxmin (first supply)"):
                    res.add_maxmin(cat, junk.copy(), f"E{e}old", None, jx, domain="time")
                st.fault("maxmin_supplied_twice")
            with _Sut("DR_Results.add_maxmin"):
                res.add_maxmin(cat, given, maxcase, mincase, given_x, domain="time" if xs is not None else None)
            low_max = [_lbl(maxcase, r) for r in range(rows)]
            low_min = [_lbl(mincase if mincase is not None else maxcase, r) for r in range(rows)]
            lab = {0: lambda l: name, 2: lambda l: name, 1: lambda l: f"{name},{l}", 3: lambda l: l}[doappend]
            hist[cat].append((vals, xs, [lab(l) for l in low_max], [lab(l) for l in low_min]))
            ops.append({"event": name, "cat": cat, "ext": vals.tolist()})
        results.append(res)
        if not use_merge:
            tree[name] = res
    if use_merge:
        with _Sut("DR_Results.merge"):
            tree.merge(results)
    nform = 1 + ch.draw(2, "nform")
    for _ in range(nform):  # a second call must rebuild, not accumulate
        with _Sut("DR_Results.form_extreme"):
            tree.form_extreme(doappend=doappend)
    for cat, h in hist.items():
        x = tree["extreme"][cat]
        if list(x.cases) != [f"E{e}" for e in range(nev)]:
            raise Violation("envelope_cases_wrong", f"form_extreme[external]:{cat}.cases", got=list(x.cases))
        _check_extrema_fold(x, h, rows, cols, with_x or mixed_x, True, nev - 1, where=f"form_extreme[external,{cols}col]")
        tr.ev("ext", cat, x.ext)
    st.steps = nev * ncat + nform
    st.nontrivial = nev >= 2
    st.distinct["histories"] = tr.shape_digest() + str([[h_[0].tolist() for h_ in v] for v in hist.values()])

# -------------------------------------------------------- scenario: campaign

DRFUNCS = [
    # (expression template, needs, model function)
    ("Vars[se]['{c}A'] @ sol.a", "A", lambda V, s: V["A"] @ s.a),
    ("Vars[se]['{c}A'] @ sol.d", "A", lambda V, s: V["A"] @ s.d),
    ("Vars[se]['{c}A'] @ sol.a + Vars[se]['{c}D'] @ sol.d", "AD", lambda V, s: V["A"] @ s.a + V["D"] @ s.d),
    ("np.vstack((Vars[se]['{c}A'] @ sol.d, Vars[se]['{c}D'] @ sol.v))", "AD2", lambda V, s: np.vstack((V["A"] @ s.d, V["D"] @ s.v))),
    ("Vars[se]['{c}A'] @ sol.a + Vars[se]['{c}F'] @ sol.pg", "AF", lambda V, s: V["A"] @ s.a + V["F"] @ s.pg),
    ("sol.a", "view_n", lambda V, s: s.a),
    ("sol.v[:2]", "view_2", lambda V, s: s.v[:2]),
    ("sol.d", "view_n", lambda V, s: s.d),
]
NPG = 3


def _pv_forms(ch, rows, tag):
    """A histpv/srspv in one of the accepted forms -> (value handed over, index list)."""
    form = ch.weighted([3, 2, 2, 2, 2, 1], tag)
    allidx = list(range(rows))
    if form == 0:
        return "all", allidx
    if form == 1:
        stop = 1 + ch.draw(rows, tag + "_stop")
        return slice(stop), allidx[:stop]
    if form == 2:
        i = ch.draw(rows, tag + "_int")
        return i, [i]
    if form == 3:
        idx = [i for i in allidx if ch.flip(1, 2, tag + "_idx")] or [0]
        if ch.flip(1, 2, tag + "_rev"):
            idx = idx[::-1]
        return idx, idx
    if form == 4:
        mask = np.array([ch.flip(1, 2, tag + "_mask") for _ in allidx])
        if not mask.any():
            mask[0] = True
        return mask, list(np.flatnonzero(mask))
    return np.array(allidx[::-1]), allidx[::-1]


class CatSpec:
    pass


def draw_config(ch, rng, nmodes, cfgname, domain_hint, allow_srs):
    """A DR_Def/DR_Event configuration: categories with matrices and options."""
    ncat = 1 + ch.weighted([3, 3, 2], "ncat")
    cats = []
    for c in range(ncat):
        cs = CatSpec()
        cs.name = f"cat{c}"
        kind = ch.weighted([4, 2, 3, 2, 3, 2, 1, 1], "drfunc")
        expr, needs, fn = DRFUNCS[kind]
        if needs == "view_2" and nmodes < 2:
            kind = 5
            expr, needs, fn = DRFUNCS[kind]
        cs.kind = kind
        cs.needs = needs
        cs.fn = fn
        base_rows = 1 + ch.draw(4, "rows")
        if DEEP[0]:
            base_rows = 4 + ch.draw(9, "rows_deep")
        cs.V = {}
        quant = ch.flip(1, 3, "quantT")

        def T(shape):
            return rng.integers(-2, 3, shape).astype(float) if quant else rng.standard_normal(shape)

        if needs in ("A", "AD", "AD2", "AF"):
            cs.V["A"] = T((base_rows, nmodes))
        if needs in ("AD", "AD2"):
            cs.V["D"] = T((base_rows, nmodes))
        if needs == "AF":
            cs.V["F"] = T((base_rows, NPG))
        cs.rows = {"A": base_rows, "AD": base_rows, "AD2": 2 * base_rows, "AF": base_rows, "view_n": nmodes, "view_2": 2}[needs]
        cs.expr = expr.format(c=cs.name)
        cs.view = needs.startswith("view")
        cs.uf_def = draw_uf(ch, "cat_uf")  # as given to DR_Def.add
        cs.uf = cs.uf_def  # effective (after DR_Event.add's override), set below
        cs.labels = [f"{cs.name} r{i}" for i in range(cs.rows)]
        cs.histpv, cs.hist_idx = (None, None)
        if ch.flip(1, 2, "histpv_on"):
            cs.histpv, cs.hist_idx = _pv_forms(ch, cs.rows, "histpv")
        cs.srspv = cs.srs_idx = None
        cs.srsQs = None
        if allow_srs and ch.flip(1, 3, "srs_on"):
            cs.srspv, cs.srs_idx = _pv_forms(ch, cs.rows, "srspv")
            cs.srsQs = [(10,), (25, 50), 20][ch.draw(3, "srsQs")]
            cs.srsconv = [1.0, 2.5, None, -1.5][ch.weighted([3, 3, 3, 1], "srsconv")]
            cs.srsopts = [
                {}, {"eqsine": True}, {"ic": "steady"}, {"eqsine": True, "ic": "steady"}, None,
                # signed peak statistics: the spectrum (hence its envelope over cases) may be negative everywhere
                {"peak": "negs"}, {"peak": "poss"}, {"peak": "neg", "ic": "steady"}, {"peak": "negs", "eqsine": True}, {"peak": "rms"},
            ][ch.weighted([3, 3, 3, 3, 3, 2, 1, 1, 1, 1], "srsopts")]
            cs.nfrq = 2 + ch.draw(3, "nsrsfrq")
            # categories have their own SRS frequency vectors: a prefix of the common palette,
            # possibly shifted (same length as another category's, different values)
            cs.frq_scale = [1.0, 1.3, 0.8][ch.weighted([3, 2, 1], "srsfrq_scale")]
        cats.append(cs)
    # the documented generic form: the SAME recovery string ("Vars[se]['A'] @ sol.a") for several
    # categories that differ only in the superelement id `se` their matrices are filed under
    if ch.flip(1, 3, "generic_strings_per_se"):
        for cs, se in zip(cats, [0, 100, 500, 700]):
            cs.se = se
            cs.mprefix = ""
            if not cs.view:
                cs.expr = DRFUNCS[cs.kind][0].format(c="")
    # DR_Event.add: the categories arrive in one or two DR_Def groups, each group
    # optionally with an event-level uf_reds override (replace / multiply / callable)
    ngroups = 2 if (ncat >= 2 and ch.flip(1, 3, "two_drdefs")) else 1
    cutg = 1 + ch.draw(ncat - 1, "drdef_cut") if ngroups == 2 else ncat
    for gi, grp in enumerate((cats[:cutg], cats[cutg:])):
        if not grp:
            continue
        ov = None
        meth = "replace"
        if ch.flip(1, 3, "uf_override"):
            ov = tuple([None, 1.1, 0.0, 2.0][ch.weighted([3, 2, 1, 1], "uf_override_val")] for _ in range(4))
            if all(v is None for v in ov):
                ov = (None, None, 1.2, None)
            meth = ["replace", "multiply", "add", "old+new/2"][ch.draw(4, "uf_method")]
        for cs in grp:
            cs.group = gi
            cs.uf_override = ov
            cs.uf_method = meth
            if ov is not None:
                f = {"replace": lambda o, n: n, "multiply": lambda o, n: o * n, "add": lambda o, n: o + n, "old+new/2": lambda o, n: o + 0.5 * n}[meth]
                cs.uf = tuple(o if n is None else f(o, n) for o, n in zip(cs.uf_def, ov))
    return cats


def _uf_add(old, new):
    return old + new


def _uf_old_plus_half_new(old, new):
    """A callable override rule that is NOT symmetric in (old, new): the documented
    argument order `method(old, new)` matters."""
    return old + 0.5 * new


def build_DR(M, cats, cfgname, srsfrq):
    cla = M.cla
    DR = cla.DR_Event()
    for gi in sorted({cs.group for cs in cats}):
        grp = [cs for cs in cats if cs.group == gi]
        drdefs = _build_drdef(cla, grp, cfgname, srsfrq)
        ov, meth = grp[0].uf_override, grp[0].uf_method
        if ov is None:
            DR.add(None, drdefs)
        else:
            DR.add(None, drdefs, uf_reds=ov, method={"add": _uf_add, "old+new/2": _uf_old_plus_half_new}.get(meth, meth))
    # the event must know every distinct factor tuple
    for cs in cats:
        if tuple(DR.Info[cs.name].uf_reds) != tuple(cs.uf):
            raise Violation("uf_reds_merge_wrong", "DR_Event.add", category=cs.name, got=list(DR.Info[cs.name].uf_reds), expected=list(cs.uf), override=repr(cs.uf_override), method=cs.uf_method)
        if tuple(cs.uf) not in [tuple(u) for u in DR.UF_reds]:
            raise Violation("uf_reds_not_collected", "DR_Event.add", category=cs.name)
    return DR


def _build_drdef(cla, cats, cfgname, srsfrq):
    drdefs = cla.DR_Def({"se": 0})
    for cs in cats:
        kw = dict(name=cs.name, labels=list(cs.labels), drfunc=cs.expr, uf_reds=cs.uf_def, desc=f"{cs.name} of {cfgname}")
        se = getattr(cs, "se", 0)
        if se:
            kw["se"] = se
        drms = {getattr(cs, "mprefix", cs.name) + k: v for k, v in cs.V.items()}
        # data recovery matrices: alternately through drms and nondrms (equivalent for se 0;
        # for another superelement only nondrms, which need no ULVS matrix)
        if drms:
            kw["drms" if (cs.kind % 2 == 0 and not se) else "nondrms"] = drms
        if cs.histpv is not None:
            kw["histpv"] = cs.histpv
        if cs.srspv is not None:
            kw["srspv"] = cs.srspv
            kw["srsQs"] = cs.srsQs
            kw["srsfrq"] = srsfrq[: cs.nfrq] * getattr(cs, "frq_scale", 1.0)
            if cs.srsconv is not None:
                kw["srsconv"] = cs.srsconv
            if cs.srsopts is not None:
                kw["srsopts"] = dict(cs.srsopts)
        drdefs.add(**kw)
    return drdefs


class Event:
    pass


DEEP = [False]  # one campaign in a hundred uses larger bounds (see scenario_campaign)


def scenario_campaign(ch, tr, st):
    M = modules()
    cla = M.cla
    rng = ch.data_rng()
    # deep campaign: 3-6 events, 4-9 cases each, up to 12 rows, 50-200 abscissa points, 200 operations
    DEEP[0] = ch.flip(1, 100, "deep_run")
    if DEEP[0]:
        st.fault("deep_run")
    mod = draw_modal(ch, rng)
    nev = 1 + ch.weighted([2, 3, 3, 2], "nevents")
    if DEEP[0]:
        nev = 3 + ch.draw(4, "nevents_deep")
    domain_mix = ch.weighted([5, 3, 3, 3], "domain_mix")  # all time / all frf / mixed / all psd
    two_cfg = ch.flip(1, 3, "label_mismatch_cfg")
    faults_on = ch.flip(3, 4, "faults_on")
    nan_on = faults_on and ch.flip(1, 2, "nan_on")
    ties_on = faults_on and ch.flip(1, 2, "ties_on")
    jperm_on = ch.flip(1, 2, "jperm_on")
    interleave = ch.flip(2, 3, "interleave")
    persistent_top = ch.flip(1, 2, "persistent_top")
    shared_case_names = ch.flip(1, 3, "shared_case_names")
    h = [0.01, 0.002, 0.05][ch.draw(3, "h")]
    sr = 1.0 / h
    srsfrq = np.array([sr / 40, sr / 15, sr / 8, sr / 5])
    model_varies = ch.flip(1, 2, "model_varies")  # events have their own system modes

    # configurations (DR_Event objects shared by several events)
    cfgs = {}
    cfgs["A"] = draw_config(ch, rng, mod.n, "A", None, True)
    if two_cfg:
        # same category names, different label sets (no SRS: SRS categories need equal rows)
        catsB = []
        for cs in cfgs["A"]:
            if cs.srspv is not None or cs.view:
                catsB.append(cs)
                continue
            nb = copy.copy(cs)
            nb.V = {k: v.copy() for k, v in cs.V.items()}
            # drop / add / permute rows
            mode = ch.draw(3, "lblmode")
            rows = cs.rows
            if cs.kind == 3:
                catsB.append(cs)
                continue
            if mode == 0 and rows > 1:
                keep = list(range(rows - 1))
                nb.labels = [cs.labels[i] for i in keep]
                nb.V = {k: v[keep] for k, v in cs.V.items()}
                nb.rows = len(keep)
            elif mode == 1:
                nb.labels = cs.labels + [f"{cs.name} extra"]
                nb.V = {k: np.vstack((v, rng.standard_normal((1, v.shape[1])))) for k, v in cs.V.items()}
                nb.rows = rows + 1
            else:
                p = list(range(rows))[::-1]
                nb.labels = [cs.labels[i] for i in p]
                nb.V = {k: v[p] for k, v in cs.V.items()}
            if ch.flip(1, 2, "lbl_general"):
                # the general case: a drawn subset of the rows, up to two extra rows, in a drawn
                # order (a superset of the other configuration's rows in a conflicting order, a
                # partial overlap, ...)
                keep = [i for i in range(rows) if ch.flip(3, 4, "lbl_keep")] or [0]
                nextra = ch.draw(3, "lbl_extra")
                labs = [cs.labels[i] for i in keep] + [f"{cs.name} extra{q}" for q in range(nextra)]
                Vn = {k: np.vstack([v[keep]] + [rng.standard_normal((1, v.shape[1])) for _ in range(nextra)]) for k, v in cs.V.items()}
                p = ch.perm(len(labs), "lbl_perm")
                nb.labels = [labs[i] for i in p]
                nb.V = {k: v[p] for k, v in Vn.items()}
                nb.rows = len(labs)
            if nb.histpv is not None:
                nb.histpv, nb.hist_idx = "all", list(range(nb.rows))
            catsB.append(nb)
        cfgs["B"] = catsB
    DRs = {}
    with _Sut("DR_Def.add/DR_Event.add"):
        for name, cats in cfgs.items():
            DRs[name] = build_DR(M, cats, name, srsfrq)

    events = []
    for e in range(nev):
        ev = Event()
        ev.idx = e
        ev.name = f"ev{e}"
        ev.domain = "time" if domain_mix == 0 else "frf" if domain_mix == 1 else "psd" if domain_mix == 3 else ["time", "frf", "psd"][ch.draw(3, "domain")]
        ev.cfg = "B" if two_cfg and e > 0 and ch.flip(1, 2, "useB") else "A"
        ev.cats = cfgs[ev.cfg]
        ev.DR = DRs[ev.cfg]
        ev.n = 1 + ch.weighted([2, 3, 3, 2, 1], "ncases")
        # load cases usually carry the same names in every event ("case 1", ...): only the
        # event name tells them apart in envelopes
        ev.cprefix = "" if shared_case_names else ev.name
        if DEEP[0]:
            ev.n = 4 + ch.draw(6, "ncases_deep")
        ev.jorder = ch.perm(ev.n, "jperm") if jperm_on else list(range(ev.n))
        ev.done = []  # list of (j, casename)
        ev.h = h / 2 if (e > 0 and ch.flip(1, 3, "event_own_step")) else h  # events need not share a time step
        ev.xfixed = None
        ev.mod = mod.revalue(rng) if (model_varies and e > 0) else mod
        if e > 0 and not model_varies and ch.flip(1, 4, "redesignate_rf"):
            alt = mod.redesignate(rng)
            if alt is not None:
                ev.mod = alt
                st.fault("rf_redesignated_same_matrices")
        ev.peak_factor = 3.0
        ev.resp_time = None
        if ev.domain == "psd":
            ev.peak_factor = [3.0, 1.0, 4.5][ch.draw(3, "peak_factor")]
            ev.resp_time = [None, 60.0][ch.draw(2, "resp_time")]
            ev.use_apply_uf = ch.flip(1, 2, "use_apply_uf")
            ev.incrb = ["dva", "va", "a", ""][ch.draw(4, "incrb")]
            ev.rf_disp_only = ch.flip(1, 3, "rf_disp_only")
            ev.clock_jumps = ch.flip(1, 2, "clock_jumps")
            ev.solve_first = ev.jorder == sorted(ev.jorder) and ev.n > 1 and ch.flip(1, 3, "psd_solve_first")
            ev.nsolved = 0
            ev.solved = {}
            ev.fs_kind = ch.weighted([3, 1], "fs_kind")
            if ev.mod.rfmodes is not None and ev.mod.desc["rf_at"] and (ev.mod.desc["rf_at"][0] < mod.nrb + mod.nel or ev.mod is not mod):
                # SolveUnc.fsolve raises IndexError in _solve_freq_rb when residual-flexibility
                # modes are numbered before elastic modes and there are rigid-body modes (the
                # rb partition is then an index array: `v[rb, pvnz] = ...`).  A limitation of the
                # frequency-domain solver (C02's territory, observation O6 in DESIGN.md), not of
                # the bookkeeping: such events use FreqDirect.
                ev.fs_kind = 1
            rfidx_ = None if ev.mod.rfmodes is None else (np.flatnonzero(ev.mod.rfmodes) if ev.mod.rfmodes.dtype == bool else ev.mod.rfmodes)

            def mkfs(mats, _k=ev.fs_kind, _rf=rfidx_):
                m_, b_, k_ = mats
                rb_ = list(range(mod.nrb))
                if _k == 0:
                    return M.ode.SolveUnc(m_, b_, k_, rb=rb_, rf=_rf)
                return M.ode.FreqDirect(m_, b_, k_, rb=rb_, rf=_rf)

            with _Sut("ode solver construction (psd event)"):
                ev.fs = mkfs((ev.mod.m, ev.mod.b, ev.mod.k))
            ev.fs_ref = mkfs(copy.deepcopy((ev.mod.m, ev.mod.b, ev.mod.k)))
        ev.srsfrq_for = lambda cs, _f=srsfrq: _f[: cs.nfrq] * getattr(cs, "frq_scale", 1.0)
        ev.srs_all = srsfrq
        ev.R = {}  # casename -> {cat: response}
        ev.x = {}
        ev.dosrs = True
        with _Sut("DR_Event.prepare_results"):
            ev.res = ev.DR.prepare_results("mission", ev.name)
        events.append(ev)
    if any(e.jorder != sorted(e.jorder) for e in events):
        st.fault("j_out_of_order")
    if len({e.cfg for e in events}) > 1:
        st.fault("label_mismatch")
    if model_varies and len(events) > 1:
        st.fault("model_varies_between_events")
    shared = {}
    for e in events:
        shared.setdefault(e.cfg, []).append(e)
    if any(len(v) > 1 for v in shared.values()):
        st.fault("shared_DR_Event")

    st.rendered.update(
        scenario="campaign", modal=mod.desc,
        events=[dict(name=e.name, domain=e.domain, cfg=e.cfg, ncases=e.n, jorder=e.jorder) for e in events],
        cats={k: [dict(name=c.name, drfunc=c.expr, rows=c.rows, uf=list(c.uf), histpv=repr(c.histpv), srspv=repr(c.srspv), srsQs=repr(c.srsQs), srsopts=repr(getattr(c, "srsopts", None)), labels=c.labels) for c in v] for k, v in cfgs.items()},
        faults=dict(nan=nan_on, ties=ties_on, jperm=jperm_on, interleave=interleave),
    )
    tr.shape("campaign", mod.n, mod.nrb, nev, [(e.domain, e.cfg, e.n, tuple(e.jorder)) for e in events], [(c.kind, c.rows, repr(c.histpv), repr(c.srspv)) for c in cfgs["A"]])

    ops = []
    top = None
    top_sig = None
    steps = 0
    max_ops = 200 if DEEP[0] else 60
    fs = SimFS()
    st.fs = fs
    crash_on = ch.flip(1, 3, "crash_on")
    for e in events:
        e.ckpt = None
    cur_event = None
    while steps < max_ops:
        pending = [e for e in events if len(e.done) < e.n]
        started = [e for e in events if e.done]
        finished = [e for e in events if len(e.done) == e.n]
        if not pending and steps > 0 and not ch.flip(1, 3, "more_ops"):
            break
        kinds = []
        if pending:
            kinds += ["recover"] * 6
        if started:
            kinds += ["inspect", "envelope", "envelope"]
        if finished:
            kinds += ["split_merge", "calc_ext"]
        if crash_on and started:
            kinds += ["checkpoint", "crash_restart"]
        kind = kinds[ch.draw(len(kinds), "op")]
        steps += 1
        if kind == "recover":
            if interleave or cur_event is None or cur_event not in pending:
                ev = pending[ch.draw(len(pending), "which_event")]
            else:
                ev = cur_event
            if cur_event is not None and ev is not cur_event and cur_event in pending:
                st.fault("interleaved_events")
            cur_event = ev
            op_recover(M, ch, tr, st, rng, mod, ev, h, nan_on, ties_on)
            ops.append(f"recover {ev.name} j={ev.done[-1][0]} case={ev.done[-1][1]}")
            # running extrema must already be the extrema of the prefix
            check_event(M, st, ev, tr)
        elif kind == "inspect":
            ev = started[ch.draw(len(started), "which_event")]
            check_event(M, st, ev, tr)
            ops.append(f"inspect {ev.name}")
        elif kind == "envelope":
            top, top_sig = op_envelope(M, ch, tr, st, started, top if persistent_top else None, top_sig, ops)
        elif kind == "split_merge":
            ev = finished[ch.draw(len(finished), "which_event")]
            op_split_merge(M, ch, tr, st, ev)
            ops.append(f"split_merge {ev.name}")
            check_event(M, st, ev, tr)  # a read-only operation: the event is as it was
        elif kind == "calc_ext":
            ev = finished[ch.draw(len(finished), "which_event")]
            op_calc_ext(M, ch, tr, st, ev)
            ops.append(f"calc_ext {ev.name}")
            check_event(M, st, ev, tr)
        elif kind == "checkpoint":
            ev = started[ch.draw(len(started), "which_event")]
            with fs.mounted(M), _Sut("cla.save(event results)"):
                cla.save(f"{ev.name}.p", ev.res)
            ev.ckpt = list(ev.done)
            ev.ckpt_nsolved = getattr(ev, "nsolved", 0)
            if ev.done:
                check_event(M, st, ev, tr)  # saving leaves the live results alone
            ops.append(f"checkpoint {ev.name} after {len(ev.done)} cases")
            tr.shape("checkpoint", ev.idx, len(ev.done))
            st.fault("checkpoint_saved")
        elif kind == "crash_restart":
            # the process dies: the live results of one event are gone; what
            # was saved survives.  Recovery restarts from there.
            ev = started[ch.draw(len(started), "which_event")]
            had = len(ev.done)
            if ev.ckpt is None:
                with _Sut("DR_Event.prepare_results"):
                    ev.res = ev.DR.prepare_results("mission", ev.name)
                ev.done = []
                ev.nsolved = 0  # the temporary PSD store died with the results
                st.fault("crash_restart_from_scratch")
            else:
                with fs.mounted(M), _Sut("cla.load(event results)"):
                    ev.res = cla.load(f"{ev.name}.p")
                ev.done = list(ev.ckpt)
                ev.nsolved = getattr(ev, "ckpt_nsolved", 0)  # what the saved store holds
                st.fault("crash_restart_from_checkpoint")
                if len(ev.done) < had:
                    st.fault("crash_lost_cases_redone")
            if not isinstance(ev.res, cla.DR_Results):
                raise Violation("restore_type_wrong", "cla.load(event results)", got=type(ev.res).__name__)
            top = top_sig = None  # an envelope tree built on the dead objects is gone too
            cur_event = None
            ops.append(f"crash_restart {ev.name}: {had} -> {len(ev.done)} cases")
            tr.shape("crash_restart", ev.idx, had, len(ev.done))
            if ev.done:
                check_event(M, st, ev, tr)
    st.rendered["ops"] = ops
    st.steps = steps
    recheck_envelopes(st)
    ncases = sum(len(e.done) for e in events)
    st.nontrivial = ncases >= 2 and (
        any(e.jorder != sorted(e.jorder) for e in events) or bool(st.faults) or any(o.startswith("envelope") and o.count("ev") >= 2 for o in ops)
    )
    st.distinct["histories"] = tr.shape_digest()


def _draw_sol(ch, rng, mod, ev, h, nan_on, ties_on):
    n = mod.n
    quant = ties_on and ch.flip(2, 3, "quant_case")
    if ev.domain == "time":
        if ev.xfixed is None:
            ev.xfixed = np.arange((50 + ch.draw(150, "nt_deep")) if DEEP[0] else (3 + ch.draw(20, "nt"))) * h
        x = ev.xfixed
        nt = len(x)

        def mk(shape):
            return rng.integers(-3, 4, shape).astype(float) if quant else rng.standard_normal(shape)

        sol = SimpleNamespace(a=mk((n, nt)), v=mk((n, nt)), d=mk((n, nt)), pg=mk((NPG, nt)), t=x, h=h)
    else:
        if ev.xfixed is None:
            ev.xfixed = np.sort(rng.uniform(1.0, 40.0, 3 + ch.draw(12, "nf")))
        x = ev.xfixed
        nf = len(x)

        def mk(shape):
            if quant:
                return rng.integers(-3, 4, shape) + 1j * rng.integers(-3, 4, shape)
            return rng.standard_normal(shape) + 1j * rng.standard_normal(shape)

        sol = SimpleNamespace(a=mk((n, nf)), v=mk((n, nf)), d=mk((n, nf)), pg=mk((NPG, nf)) , f=x)
    nanned = None
    if nan_on and ch.flip(1, 3, "nan_case") and len(x) > 2:
        nanned = ch.draw(len(x), "nan_col")
    return sol, x, quant, nanned


class FakeClock:
    """time.time replacement that jumps forwards and backwards (seeded)."""

    JUMPS = [1e-3, 5.0, -3.0, 1e6, -1e6, 0.0]

    def __init__(self, ch, st):
        self.t = 1.7e9
        self.ch = ch
        self.st = st

    def __call__(self):
        jmp = self.JUMPS[self.ch.draw(len(self.JUMPS), "clock")]
        if jmp < 0:
            self.st.fault("clock_jump_backwards")
        elif jmp > 1:
            self.st.fault("clock_jump_forwards")
        self.t += jmp
        return self.t


def _psd_solve(M, ch, tr, st, rng, ev, case):
    """solvepsd for one case (system) + the model's response PSDs for it."""
    mod = ev.mod
    if ev.xfixed is None:
        lo = 0.4 * float(ev.srs_all[0])
        hi = 1.6 * float(ev.srs_all[-1])
        nf = 6 + ch.draw(14, "nf")
        f = np.linspace(lo, hi, nf) * (1 + 0.01 * rng.uniform(-1, 1, nf))
        ev.xfixed = np.sort(f)
    f = ev.xfixed
    nf = len(f)
    flat = ch.flip(1, 3, "flat_psd")
    forcepsd = np.ones((NPG, nf)) * rng.uniform(0.2, 2.0, (NPG, 1)) if flat else rng.uniform(0.1, 2.0, (NPG, nf))
    trim = False
    if ch.flip(1, 3, "zero_force_row"):
        # an all-zero force PSD (not trimmed by default: the solver warns and carries on)
        forcepsd[ch.draw(NPG, "zero_row")] = 0.0
        st.fault("zero_force_psd_row")
        if ch.flip(1, 4, "second_zero_row"):
            forcepsd[ch.draw(NPG, "zero_row2")] = 0.0
        # trimming the zero forces off is documented as safe when no category recovers
        # with a force-dependent matrix (sol.pg): the answer must not change
        if not any(getattr(c, "needs", "") == "AF" for c in ev.cats) and np.any(forcepsd) and ch.flip(1, 2, "allow_force_trimming"):
            trim = True
            st.fault("force_trimming")
    t_frc = rng.standard_normal((mod.n, NPG))
    kw = dict(incrb=ev.incrb, rf_disp_only=ev.rf_disp_only)
    nas = {"nrb": mod.nrb}
    verbose = ch.flip(1, 4, "verbose")
    import time as _t

    orig = _t.time
    if ev.clock_jumps:
        _t.time = FakeClock(ch, st)
    try:
        with _Sut("DR_Results.solvepsd"), _quiet():
            ev.res.solvepsd(nas, case, ev.DR, ev.fs, forcepsd.copy(), t_frc.copy(), f.copy(), use_apply_uf=ev.use_apply_uf, verbose=verbose, **({"allow_force_trimming": True} if trim else {}), **kw)
    finally:
        _t.time = orig
    # model
    ufs = list(dict.fromkeys(c.uf for c in ev.cats))
    rfidx = None if mod.rfmodes is None else (np.flatnonzero(mod.rfmodes) if mod.rfmodes.dtype == bool else mod.rfmodes)
    P = {cs.name: 0.0 for cs in ev.cats}
    unit = np.ones(nf)
    for i in range(NPG):
        sol = ev.fs_ref.fsolve(t_frc[:, [i]] * unit, f, **kw)
        pg = np.zeros((NPG, nf))
        pg[i] = 1.0
        sol.pg = pg
        if ev.use_apply_uf:
            refsol = {u: ref_apply_uf(sol, u, mod.m, mod.b, mod.k, mod.nrb, rfidx) for u in ufs}
        else:
            refsol = {u: ref_frf_apply_uf(sol, u, mod.nrb) for u in ufs}
        for cs in ev.cats:
            resp = cs.fn(cs.V, refsol[cs.uf])
            P[cs.name] = P[cs.name] + forcepsd[i] * np.abs(resp) ** 2
    ev.solved[case] = (P, f)
    tr.ev("psdin", forcepsd, t_frc)


def op_recover_psd(M, ch, tr, st, rng, mod, ev):
    mod = ev.mod
    k = len(ev.done)
    j = ev.jorder[k]
    case = f"{ev.cprefix}c{k}"
    # solvepsd may run ahead of psd_data_recovery by any number of cases (the temporary
    # per-case PSD store holds them until their case is recovered): textbook pairs, all
    # systems solved first, or a mixed schedule such as S0 R0 S1 S2 R1 R2.  Only with j in
    # increasing order, because the store is deleted when j == n-1 is recovered.
    ev.nsolved = max(ev.nsolved, k)
    target = k + 1
    if ev.jorder == sorted(ev.jorder):
        if ev.solve_first and ev.nsolved == 0:
            target = ev.n
            st.fault("psd_all_solved_before_recovery")
        else:
            target = min(ev.n, k + 1 + [0, 0, 1, 2, 99][ch.draw(5, "psd_solve_ahead")])
    for kk in range(ev.nsolved, target):
        _psd_solve(M, ch, tr, st, rng, ev, f"{ev.cprefix}c{kk}")
    if target > k + 1:
        st.fault("psd_solved_ahead")
    ev.nsolved = max(ev.nsolved, target)
    with _Sut("DR_Results.psd_data_recovery"), _quiet():
        ev.res.psd_data_recovery(case, ev.DR, ev.n, j, dosrs=True, peak_factor=ev.peak_factor, resp_time=ev.resp_time, verbose=ch.draw(4, "verbose") if ch.flip(1, 8, "verbose_on") else 0)
    P, f = ev.solved[case]
    ev.R[case] = P
    ev.x[case] = f
    ev.done.append((j, case))
    st.fault("psd_domain")
    tr.shape("recover", ev.idx, j, "psd", len(f), ev.use_apply_uf, ev.incrb, ev.clock_jumps, ev.solve_first)


def op_recover(M, ch, tr, st, rng, mod, ev, h, nan_on, ties_on):
    if ev.domain == "psd":
        return op_recover_psd(M, ch, tr, st, rng, mod, ev)
    mod = ev.mod
    k = len(ev.done)
    j = ev.jorder[k]
    case = f"{ev.cprefix}c{k}"
    sol, x, quant, nanned = _draw_sol(ch, rng, mod, ev, ev.h, nan_on, ties_on)
    prev = getattr(ev, "last_sol", None)
    if prev is not None and ties_on and ch.flip(1, 8, "case_repeats_previous"):
        # the same solution handed in again under another case name: every row ties exactly
        for nm in ("a", "v", "d", "pg"):
            if hasattr(sol, nm) and getattr(prev, nm).shape == getattr(sol, nm).shape:
                getattr(sol, nm)[...] = getattr(prev, nm)
        st.fault("case_repeats_previous")
    ev.last_sol = copy.deepcopy(sol)
    if nanned is not None:
        st.fault("nan_cells")

    def plant(sols):
        # a solver that emitted NaN at one abscissa: planted in the scaled
        # solutions handed to data recovery (and in the model's copies)
        if nanned is not None:
            for s_ in sols.values():
                for nm in ("a", "v", "d"):
                    getattr(s_, nm)[:, nanned] = np.nan

    if quant:
        st.fault("ties_quantised")
    pristine = copy.deepcopy(sol)
    ufs = list(dict.fromkeys(c.uf for c in ev.cats))
    if ev.domain == "time":
        with _Sut("DR_Event.apply_uf"):
            SOL = ev.DR.apply_uf(sol, mod.m, mod.b, mod.k, mod.nrb, mod.rfmodes)
        rfidx = None if mod.rfmodes is None else (np.flatnonzero(mod.rfmodes) if mod.rfmodes.dtype == bool else mod.rfmodes)
        refsol = {u: ref_apply_uf(pristine, u, mod.m, mod.b, mod.k, mod.nrb, rfidx) for u in ufs}
        plant(SOL)
        plant(refsol)
        with _Sut("DR_Results.time_data_recovery"), _quiet():
            ev.res.time_data_recovery(SOL, None, case, ev.DR, ev.n, j, dosrs=ev.dosrs, verbose=ch.draw(4, "verbose") if ch.flip(1, 8, "verbose_on") else 0)
    else:
        with _Sut("DR_Event.frf_apply_uf"):
            SOL = ev.DR.frf_apply_uf(sol, mod.nrb)
        refsol = {u: ref_frf_apply_uf(pristine, u, mod.nrb) for u in ufs}
        plant(SOL)
        plant(refsol)
        with _Sut("DR_Results.frf_data_recovery"), _quiet():
            ev.res.frf_data_recovery(SOL, None, case, ev.DR, ev.n, j, dosrs=ev.dosrs, verbose=ch.draw(4, "verbose") if ch.flip(1, 8, "verbose_on") else 0)
    R = {}
    for cs in ev.cats:
        with np.errstate(all="ignore"):
            R[cs.name] = cs.fn(cs.V, refsol[cs.uf])
    ev.R[case] = R
    ev.x[case] = x
    ev.done.append((j, case))
    with np.errstate(all="ignore"):
        smag = max(float(np.nanmax(np.abs(getattr(pristine, nm)))) for nm in ("a", "v", "d", "pg") if hasattr(pristine, nm) and np.isfinite(getattr(pristine, nm)).any())
        vmag = max([1.0] + [sum(float(np.max(np.abs(v))) for v in c.V.values()) for c in ev.cats if c.V])
        umag = max([1.0] + [float(max(abs(u[0] * u[3]), abs(u[1] * u[2]), abs(u[1] * u[3]), abs(u[3]))) for u in ufs])
    ev.nat = max(getattr(ev, "nat", 0.0), smag * vmag * umag)
    if len({c.uf for c in ev.cats}) < len(ev.cats) and any(c.view for c in ev.cats):
        st.fault("view_drfunc")
    tr.shape("recover", ev.idx, j, ev.domain, len(x), quant, nanned is not None)
    tr.ev("sol", pristine.a, pristine.d)


def _mag(ev, R):
    return np.abs(R) if ev.domain == "frf" else R


class CaseModel:
    """Brute-force view of one case of one category: per-row max/min and the
    abscissae at which they are attained."""

    def __init__(self, ev, cs, case):
        self.domain = ev.domain
        if ev.domain == "psd":
            P = ev.R[case][cs.name]  # response PSD, rows x freq
            f = ev.x[case]
            df = np.diff(f)
            with np.errstate(all="ignore"):
                rms = np.sqrt(((P[:, :-1] + P[:, 1:]) * df).sum(axis=1) / 2)
                Pv = f**2 * P
                vrms = np.sqrt(((Pv[:, :-1] + Pv[:, 1:]) * df).sum(axis=1) / 2)
                self.af = vrms / rms
            self.rms = rms
            self.mx = ev.peak_factor * rms
            self.mn = -self.mx
            self.R = P
        else:
            R = _mag(ev, ev.R[case][cs.name])
            with np.errstate(all="ignore"):
                self.mx = np.nanmax(R, axis=1)
                self.mn = -self.mx if ev.domain == "frf" else np.nanmin(R, axis=1)
            self.R = R
            self.x = ev.x[case]

    def x_ok(self, i, which, gx, tol):
        """Is gx an abscissa at which row i attains its max (which=0) / min (1)?"""
        if self.domain == "psd":
            a = self.af[i]
            if np.isnan(a):
                return bool(np.isnan(gx))
            return bool(abs(gx - a) <= 1e-9 * max(1.0, abs(a)))
        target = self.mx[i] if which == 0 or self.domain == "frf" else self.mn[i]
        with np.errstate(all="ignore"):
            ok = self.x[np.abs(self.R[i] - target) <= tol]
        return bool(np.any(np.abs(ok - gx) <= 1e-12 * max(1.0, abs(gx))))

    def x_acceptable(self, i, which, tol):
        if self.domain == "psd":
            return [float(self.af[i])]
        target = self.mx[i] if which == 0 or self.domain == "frf" else self.mn[i]
        with np.errstate(all="ignore"):
            return [float(v) for v in self.x[np.abs(self.R[i] - target) <= tol][:5]]


def _model_case_mm(ev, cs, case):
    cm = CaseModel(ev, cs, case)
    return cm.R, cm.mx, cm.mn


def check_event(M, st, ev, tr):
    """Invariant: the event's tables equal brute force over the cases done so far."""
    st.probe("event_checks")
    _FLOOR[0] = 1e-6 * getattr(ev, "nat", 0.0)
    res = ev.res
    dname = {"time": "time", "frf": "frf", "psd": "psd"}[ev.domain]
    for cs in ev.cats:
        where = f"{dname}_data_recovery:{cs.name}"
        if cs.name not in res:
            raise Violation("missing_category", where, have=list(res))
        r = res[cs.name]
        rows = cs.rows
        if r.ext is None:
            raise Violation("missing_ext", where)
        if r.ext.shape != (rows, 2) or len(r.drminfo.labels) != rows or r.mx.shape != (rows, ev.n):
            raise Violation("table_shape", where, ext=str(r.ext.shape), mx=str(r.mx.shape), labels=len(r.drminfo.labels), rows=rows)
        percase = {case: CaseModel(ev, cs, case) for _, case in ev.done}
        sc = _scale(*[np.concatenate((p.mx, p.mn)) for p in percase.values()])
        tol = TOL * sc
        allmx = np.array([percase[c].mx for _, c in ev.done])
        allmn = np.array([percase[c].mn for _, c in ev.done])
        with np.errstate(all="ignore"):
            emx = np.nanmax(allmx, axis=0)
            emn = np.nanmin(allmn, axis=0)
        _need(_close(r.ext[:, 0], emx, TOL, sc), "ext_max_wrong", where + ".ext", done=[c for _, c in ev.done])
        _need(_close(r.ext[:, 1], emn, TOL, sc), "ext_min_wrong", where + ".ext", done=[c for _, c in ev.done])
        for i in range(rows):
            for col, allv, ev_, lab, nm in ((0, allmx, emx, r.maxcase, "maxcase"), (1, allmn, emn, r.mincase, "mincase")):
                att = [c for (jj, c), v in zip(ev.done, allv[:, i]) if abs(v - ev_[i]) <= tol]
                if lab[i] not in att:
                    raise Violation("case_label_wrong", f"{where}.{nm}", row=i, got=lab[i], attaining=att)
                cm = percase[lab[i]]
                gx = r.ext_x[i, col]
                if not cm.x_ok(i, col, gx, tol):
                    raise Violation("abscissa_wrong", f"{where}.ext_x", row=i, col=col, got=repr(float(gx)), acceptable=cm.x_acceptable(i, col, tol), case=lab[i])
        for j, case in ev.done:
            cm = percase[case]
            _need(_close(r.mx[:, j], cm.mx, TOL, sc), "percase_wrong", where + ".mx", j=j, case=case)
            _need(_close(r.mn[:, j], cm.mn, TOL, sc), "percase_wrong", where + ".mn", j=j, case=case)
            if r.cases[j] != case:
                raise Violation("case_order_wrong", where + ".cases", j=j, got=repr(r.cases[j]), expected=case)
            for i in range(rows):
                for arr, which, nm in ((r.mx_x, 0, "mx_x"), (r.mn_x, 1, "mn_x")):
                    g = arr[i, j]
                    if not cm.x_ok(i, which, g, tol):
                        raise Violation("percase_abscissa_wrong", f"{where}.{nm}", row=i, j=j, got=repr(float(g)), acceptable=cm.x_acceptable(i, which, tol))
            if ev.domain == "psd":
                if not hasattr(r, "rms"):
                    raise Violation("rms_missing", where + ".rms")
                _need(_close(r.rms[:, j], cm.rms, TOL, _scale(cm.rms)), "rms_wrong", where + ".rms", j=j, case=case)
            if cs.histpv is not None:
                name = {"time": "hist", "frf": "frf", "psd": "psd"}[ev.domain]
                H = getattr(r, name, None)
                if H is None or isinstance(H, dict):
                    raise Violation("hist_missing", where + "." + name)
                exp = ev.R[case][cs.name][cs.hist_idx]
                _need(_close(H[j], exp, TOL, _scale(exp)), "hist_wrong", where + "." + name, j=j, case=case)
                xs = getattr(r, "time" if ev.domain == "time" else "freq")
                first_case = ev.done[0][1]
                _need(_close(xs, ev.x[first_case], 0.0, 1.0), "hist_abscissa_wrong", where + ".time/freq")
        for j in range(ev.n):
            if j not in [jj for jj, _ in ev.done] and r.cases[j] != []:
                raise Violation("case_order_wrong", where + ".cases", j=j, got=repr(r.cases[j]), expected="[] (not yet recovered)")
        if cs.srspv is not None:
            check_srs(M, st, ev, cs, r, where)
        tr.ev("checked", ev.idx, cs.name, r.ext)


def model_srs(M, ev, cs, case, q):
    srs = M.srs
    R = ev.R[case][cs.name][cs.srs_idx]
    opts = dict(cs.srsopts or {})
    eqsine = bool(opts.get("eqsine"))
    frq = np.asarray(ev.srsfrq_for(cs))
    fact = 1.0 if cs.srsconv is None else cs.srsconv
    with np.errstate(all="ignore"), _quiet():
        if ev.domain == "time":
            o = {k: v for k, v in opts.items() if k in ("eqsine", "ic", "peak")}
            return fact * srs.srs(R.T, 1.0 / ev.h, frq, q, **o).T
        if ev.domain == "frf":
            o = {}
            if eqsine:
                fact = fact / q
            return fact * srs.srs_frf(R.T, ev.x[case], frq, q, **o).T
        pf = ev.peak_factor if ev.resp_time is None else np.sqrt(2 * np.log(ev.resp_time * frq))
        fact = fact * pf
        if eqsine:
            fact = fact / q
        x = ev.x[case]
        return fact * srs.vrs((x, R.T), x, q, Fn=frq, linear=True).T


def check_srs(M, st, ev, cs, r, where):
    st.probe("srs_checks")
    if not hasattr(r, "srs"):
        raise Violation("srs_missing", where + ".srs")
    Qs = cs.srsQs if isinstance(cs.srsQs, tuple) else (cs.srsQs,)
    for q in Qs:
        if q not in r.srs.srs or q not in r.srs.ext:
            raise Violation("srs_missing", where + f".srs[{q}]")
        per = {}
        for j, case in ev.done:
            exp = model_srs(M, ev, cs, case, q)
            per[j] = exp
            sc = _scale(exp)
            _need(_close(r.srs.srs[q][j], exp, 1e-8, sc), "srs_percase_wrong", where + f".srs.srs[{q}]", j=j, case=case)
        with np.errstate(all="ignore"):
            env = per[ev.done[0][0]]
            for j in per:
                env = np.fmax(env, per[j])
        _need(_close(r.srs.ext[q], env, 1e-8, _scale(env)), "srs_envelope_wrong", where + f".srs.ext[{q}]", done=[c for _, c in ev.done])
        _need(_close(np.asarray(r.srs.frq), np.asarray(ev.srsfrq_for(cs)), 0.0, 1.0), "srs_freq_wrong", where + ".srs.frq")


# ---- envelopes


def _event_ext(ev, cs):
    """Model's extrema of an event (cases done so far): per-label dict."""
    allmx = []
    allmn = []
    for j, case in ev.done:
        _, mx, mn = _model_case_mm(ev, cs, case)
        allmx.append(mx)
        allmn.append(mn)
    allmx = np.array(allmx)
    allmn = np.array(allmn)
    return allmx, allmn


def op_envelope(M, ch, tr, st, started, top, top_sig, ops):
    cla = M.cla
    sub = [e for e in started if ch.flip(2, 3, "in_envelope")] or [started[0]]
    order = [sub[i] for i in ch.perm(len(sub), "env_order")]
    levels = 1 + (ch.draw(2, "levels") if len(order) >= 2 else 0)
    doappend = [2, 0, 1, 3][ch.draw(4, "doappend")]
    use_merge = ch.flip(1, 2, "use_merge")
    with_case_order = ch.flip(1, 3, "case_order")
    # merge() may rename events on the way in
    renamed = set()
    if use_merge and ch.flip(1, 3, "rename_on_merge"):
        renamed = {e.name for e in order if ch.flip(1, 2, "rename_this")}
        if renamed:
            st.fault("merge_rename")
    for e in order:
        e.tkey = e.name + "_renamed" if e.name in renamed else e.name
    rename_dict = {n: n + "_renamed" for n in sorted(renamed)} if renamed else None
    # layout of the top level: base-level events and/or groups of events, in any mix
    # (a base event next to a group gives a tree of mixed depth)
    if levels == 1:
        layout = [("base", e.tkey, [e]) for e in order]
    else:
        shape = ch.weighted([3, 2, 2, 2], "tree_shape") if len(order) >= 2 else 0
        cut = 1 + ch.draw(len(order) - 1, "cut")
        if shape == 0:
            layout = [("group", "G0", order[:cut]), ("group", "G1", order[cut:])]
        elif shape == 1:
            layout = [("base", e.tkey, [e]) for e in order[:cut]] + [("group", "G0", order[cut:])]
        elif shape == 2:
            layout = [("group", "G0", order[:cut])] + [("base", e.tkey, [e]) for e in order[cut:]]
        else:
            if len(order) >= 3:
                layout = [("base", order[0].tkey, [order[0]]), ("group", "G0", order[1:-1]), ("base", order[-1].tkey, [order[-1]])]
            else:
                layout = [("base", order[0].tkey, [order[0]]), ("group", "G0", order[1:])]
        if shape:
            st.fault("mixed_depth_tree")
    gmodes = {}
    for kind_, key_, evs_ in layout:
        if kind_ == "group":
            # 0: assigned; 1: merged in after its own envelope was formed (named after it);
            # 2: merged in without one (merge() names it after its members)
            gmodes[key_] = ch.weighted([2, 1, 1], "group_mode") if use_merge else 0
    layout = [
        (k_, (", ".join(e.tkey for e in evs_) if k_ == "group" and gmodes[key_] == 2 else key_), evs_, gmodes.get(key_, 0))
        for k_, key_, evs_ in layout
    ]
    sig = (tuple((k_, key_, tuple(e.tkey for e in evs_)) for k_, key_, evs_, _ in layout), levels)
    # build (or reuse) the tree
    if top is not None and top_sig == sig:
        st.fault("stale_extreme_rebuild")
        tree = top
    else:
        tree = cla.DR_Results()
        with _Sut("DR_Results.merge"):
            if levels == 1 and use_merge:
                got = tree.merge([e.res for e in order], rename_dict)
                if got != [e.tkey for e in order]:
                    raise Violation("merge_names_wrong", "DR_Results.merge", got=got, expected=[e.tkey for e in order])
            else:
                for kind_, key_, evs_, gm in layout:
                    if kind_ == "base":
                        if use_merge:
                            tree.merge([evs_[0].res], rename_dict)
                        else:
                            tree[key_] = evs_[0].res
                        continue
                    g = cla.DR_Results()
                    if use_merge:
                        g.merge((e.res for e in evs_), rename_dict)  # any iterable will do
                    else:
                        for e in evs_:
                            g[e.tkey] = e.res
                    if gm == 0:
                        tree[key_] = g
                    else:
                        if gm == 1:
                            g.form_extreme(ext_name=key_, doappend=doappend)
                        got = tree.merge([g])
                        if got != [key_]:
                            raise Violation("merge_names_wrong", "DR_Results.merge(group)", got=got, expected=[key_], group_has_extreme=gm == 1)
                        st.fault("merge_of_merged_results")
        if list(k for k in tree if k != "extreme") != [key_ for _, key_, _, _ in layout]:
            raise Violation("merge_names_wrong", "DR_Results.merge", got=list(tree), expected=[key_ for _, key_, _, _ in layout])
    groups = {key_: evs_ for kind_, key_, evs_, _ in layout if kind_ == "group"}
    members = {key_: evs_ for _, key_, evs_, _ in layout}
    case_order = None
    top_keys = [key_ for _, key_, _, _ in layout]
    if with_case_order:
        case_order = [top_keys[i] for i in ch.perm(len(top_keys), "case_order_perm")]
        if len(case_order) > 1 and ch.flip(1, 3, "case_order_subset"):
            case_order = case_order[:-1]
    with _Sut("DR_Results.form_extreme"):
        tree.form_extreme(ext_name="ENV", case_order=case_order, doappend=doappend)
    used_keys = case_order if case_order is not None else top_keys
    ops.append(f"envelope {[(k_[0], key_, [e.tkey for e in evs_]) for k_, key_, evs_, _ in layout]} doappend={doappend} case_order={case_order} reuse={tree is top}")
    tr.shape("envelope", [(k_, [e.idx for e in evs_], gm) for k_, key_, evs_, gm in layout], doappend, case_order, tree is top, sorted(renamed))
    if len(order) >= 2:
        st.fault("envelope_multi_event")

    def contributors(key):
        return members[key]

    lv = frozenset(groups) if groups else 1  # which top-level keys are groups (label format differs)
    # top-level envelope over the keys used
    top_events = [e for k in used_keys for e in contributors(k)]
    check_envelope(M, st, tree["extreme"], used_keys, {k: contributors(k) for k in used_keys}, doappend, lv, "top", "ENV")
    for g in groups:
        keys = [e.tkey for e in groups[g]]
        if "extreme" not in tree[g]:
            raise Violation("envelope_missing_cat", f"form_extreme[group]:{g}", reason="no 'extreme' entry at the group level")
        # stale entries must have been replaced, not accumulated
        check_envelope(M, st, tree[g]["extreme"], keys, {e.tkey: [e] for e in groups[g]}, doappend, 1, "group", g)
    if ch.flip(1, 4, "summary_copy"):
        # the documented summary workflow: save the merged structure, load it
        # elsewhere, strip the histories, re-form the envelope there
        fs = getattr(st, "fs", None) or SimFS()
        cp = fs_roundtrip(M, fs, "summary.p", tree, "merged results")
        if not isinstance(cp, cla.DR_Results):
            raise Violation("restore_type_wrong", "cla.load(merged results)", got=type(cp).__name__)
        strip = ch.flip(2, 3, "strip_hists")
        if strip:
            with _Sut("DR_Results.strip_hists"):
                cp.strip_hists()
        with _Sut("DR_Results.form_extreme(summary copy)"):
            cp.form_extreme(ext_name="ENV", case_order=case_order, doappend=doappend)
        st.fault("summary_copy_stripped" if strip else "summary_copy")
        ops.append(f"  summary copy via save/load, strip_hists={strip}, form_extreme again")
        tr.shape("summary_copy", strip)
        check_envelope(M, st, cp["extreme"], used_keys, {k: contributors(k) for k in used_keys}, doappend, lv, "summary-copy", "ENV", stripped=strip)
    # forming envelopes must leave the events' own tables alone
    for e in order:
        check_event(M, st, e, tr)
    # ... and an envelope already handed to the user must stay what it was when OTHER trees are
    # built from the same events later (looked at again at the end of the campaign)
    held = st.__dict__.setdefault("held_envelopes", [])
    held[:] = [h_ for h_ in held if h_[0] is not tree][-3:]
    snap = {}
    for cname, x in tree["extreme"].items():
        snap[cname] = (np.array(x.ext, copy=True), None if x.ext_x is None else np.array(x.ext_x, copy=True), list(x.maxcase), list(x.mincase), np.array(x.mx, copy=True), np.array(x.mn, copy=True))
    held.append((tree, snap, len(ops)))
    return tree, sig


def recheck_envelopes(st):
    for tree, snap, opno in st.__dict__.get("held_envelopes", []):
        if "extreme" not in tree:
            continue
        for cname, (ext, ext_x, mxc, mnc, mx, mn) in snap.items():
            x = tree["extreme"].get(cname)
            if x is None:
                raise Violation("envelope_changed_later", f"form_extreme:{cname}", reason="category vanished from an envelope formed earlier", formed_at_op=opno)
            same = (
                np.array_equal(x.ext, ext, equal_nan=True) and list(x.maxcase) == mxc and list(x.mincase) == mnc
                and np.array_equal(x.mx, mx, equal_nan=True) and np.array_equal(x.mn, mn, equal_nan=True)
                and ((x.ext_x is None) == (ext_x is None)) and (ext_x is None or np.array_equal(x.ext_x, ext_x, equal_nan=True))
            )
            if not same:
                raise Violation("envelope_changed_later", f"form_extreme:{cname}", reason="an envelope formed earlier was modified by later operations on other trees / events", formed_at_op=opno)
    st.probe("envelopes_rechecked")


def _labels_for(doappend, levels, which, key, ev, case_label):
    """Acceptable maxcase/mincase text for a contributor, per the docstring table.
    `levels`: 1 (all keys are base-level events) or the set of keys that are groups."""
    if which == "group" or levels == 1 or (not isinstance(levels, int) and key not in levels):
        # one level above the base events
        return {0: key, 1: f"{key},{case_label}", 2: key, 3: case_label}[doappend]
    # top of a two-level tree: key is the group, below it the event
    ek = getattr(ev, "tkey", ev.name)
    return {0: key, 1: f"{key},{ek},{case_label}", 2: f"{key},{ek}", 3: case_label}[doappend]


def check_envelope(M, st, ext, keys, contrib, doappend, levels, which, ext_name, stripped=False):
    st.probe("envelope_checks")
    events = [e for k in keys for e in contrib[k]]
    _FLOOR[0] = 1e-6 * max([0.0] + [getattr(e, "nat", 0.0) for e in events])
    catnames = []
    for e in events:
        for cs in e.cats:
            if cs.name not in catnames:
                catnames.append(cs.name)
    for cname in catnames:
        where = f"form_extreme[{which}]:{cname}"
        if cname not in ext:
            raise Violation("envelope_missing_cat", where)
        x = ext[cname]
        # union of labels, in any order
        per_key = {}
        for k in keys:
            d = {}
            for e in contrib[k]:
                cs = next((c for c in e.cats if c.name == cname), None)
                if cs is None:
                    continue
                allmx, allmn = _event_ext(e, cs)
                for i, lab in enumerate(cs.labels):
                    cands = d.setdefault(lab, [])
                    for (j, case), vmx, vmn in zip(e.done, allmx[:, i], allmn[:, i]):
                        cands.append((vmx, vmn, e, case))
            per_key[k] = d
        union = []
        for k in keys:
            for lab in per_key[k]:
                if lab not in union:
                    union.append(lab)
        got_labels = list(x.drminfo.labels)
        if sorted(got_labels) != sorted(union):
            raise Violation("envelope_labels_wrong", where + ".labels", got=got_labels, expected=union)
        if x.ext.shape != (len(union), 2) or x.mx.shape != (len(union), len(keys)):
            raise Violation("table_shape", where, ext=str(x.ext.shape), mx=str(x.mx.shape), labels=len(union), keys=len(keys))
        if list(x.cases) != [str(k) for k in keys]:
            raise Violation("envelope_cases_wrong", where + ".cases", got=list(x.cases), expected=list(keys))
        if x.event != ext_name:
            raise Violation("envelope_event_name", where + ".event", got=x.event, expected=ext_name)
        allvals = [c[0] for k in keys for l in per_key[k].values() for c in l] + [c[1] for k in keys for l in per_key[k].values() for c in l]
        sc = _scale(np.array(allvals))
        tol = TOL * sc
        for gi, lab in enumerate(got_labels):
            # per key (column of mx/mn)
            kmx = []
            kmn = []
            for k in keys:
                c = per_key[k].get(lab)
                if c:
                    kmx.append(max(v[0] for v in c))
                    kmn.append(min(v[1] for v in c))
                else:
                    kmx.append(np.nan)
                    kmn.append(np.nan)
            _need(_close(x.mx[gi], np.array(kmx), TOL, sc), "envelope_percase_wrong", where + ".mx", label=lab)
            _need(_close(x.mn[gi], np.array(kmn), TOL, sc), "envelope_percase_wrong", where + ".mn", label=lab)
            emx = np.nanmax(kmx)
            emn = np.nanmin(kmn)
            _need(_close(x.ext[gi], np.array([emx, emn]), TOL, sc), "envelope_value_wrong", where + ".ext", label=lab, keys=list(keys))
            # labels of an attaining contributor
            for col, target, lbls in ((0, emx, x.maxcase), (1, emn, x.mincase)):
                ok = set()
                for k in keys:
                    for v in per_key[k].get(lab, []):
                        if abs(v[col] - target) <= tol:
                            ok.add(_labels_for(doappend, levels, which, k, v[2], v[3]))
                if lbls[gi] not in ok:
                    raise Violation("envelope_case_label_wrong", where + (".maxcase" if col == 0 else ".mincase"), label=lab, got=lbls[gi], acceptable=sorted(ok), doappend=doappend)
        # SRS envelope: element-wise max over events
        cs0 = next((c for e in events for c in e.cats if c.name == cname), None)
        if cs0 is not None and cs0.srspv is not None:
            if not hasattr(x, "srs"):
                raise Violation("srs_missing", where + ".srs")
            Qs = cs0.srsQs if isinstance(cs0.srsQs, tuple) else (cs0.srsQs,)
            for q in Qs:
                env = None
                for ki, k in enumerate(keys):
                    kenv = None
                    for e in contrib[k]:
                        cs = next(c for c in e.cats if c.name == cname)
                        for j, case in e.done:
                            s = model_srs(M, e, cs, case, q)
                            with np.errstate(all="ignore"):
                                kenv = s if kenv is None else np.fmax(kenv, s)
                    _need(_close(x.srs.srs[q][ki], kenv, 1e-8, _scale(kenv)), "srs_envelope_percase_wrong", where + f".srs.srs[{q}]", key=k)
                    with np.errstate(all="ignore"):
                        env = kenv if env is None else np.fmax(env, kenv)
                _need(_close(x.srs.ext[q], env, 1e-8, _scale(env)), "srs_envelope_wrong", where + f".srs.ext[{q}]", keys=list(keys))
                st.probe("srs_envelope_checks")


def op_split_merge(M, ch, tr, st, ev):
    cla = M.cla
    _FLOOR[0] = 1e-6 * getattr(ev, "nat", 0.0)
    _cats_present(ev.res, ev, "event results")
    with _Sut("DR_Results.split"):
        sp = ev.res.split()
    cases = [c for _, c in sorted(ev.done)]
    if list(sp.keys()) != cases:
        raise Violation("split_cases_wrong", "DR_Results.split", got=list(sp.keys()), expected=cases)
    # each piece must hold exactly that case's data
    for (j, case) in sorted(ev.done):
        for cs in ev.cats:
            where = f"split:{cs.name}"
            pc = sp[case][cs.name]
            R, mx, mn = _model_case_mm(ev, cs, case)
            # the tables hold extremes (PSD domain: peak_factor x rms), the raw response there is
            # a PSD of a different order of magnitude (1 ulp of an rms was once judged against it)
            sc = _scale(mx, mn)
            _need(_close(pc.ext, np.column_stack((mx, mn)), TOL, sc), "split_piece_wrong", where + ".ext", case=case)
            _need(_close(pc.mx[:, 0], mx, TOL, sc), "split_piece_wrong", where + ".mx", case=case)
            _need(_close(pc.mn[:, 0], mn, TOL, sc), "split_piece_wrong", where + ".mn", case=case)
            _need(_close(pc.ext_x, np.column_stack((ev.res[cs.name].mx_x[:, j], ev.res[cs.name].mn_x[:, j])), 0.0, 1.0), "split_piece_wrong", where + ".ext_x", case=case)
            if list(pc.cases) != [case] or pc.event != case:
                raise Violation("split_piece_wrong", where + ".cases", got=list(pc.cases), event=pc.event, expected=case)
            if cs.histpv is not None:
                # split() carries `hist` (time domain) over; it does not carry `frf`
                # (observation recorded in DESIGN.md; C16 does not promise it), so the
                # stored history of a piece is judged only where one is present
                H = getattr(pc, {"time": "hist", "frf": "frf", "psd": "psd"}[ev.domain], None)
                if ev.domain in ("time", "psd") and (H is None or H.shape[0] != 1):
                    raise Violation("split_piece_wrong", where + ".hist", case=case, got=None if H is None else str(H.shape))
                if H is not None:
                    _need(_close(H[0], ev.R[case][cs.name][cs.hist_idx], TOL, _scale(R)), "split_piece_wrong", where + ".hist", case=case)
            if cs.srspv is not None:
                Qs = cs.srsQs if isinstance(cs.srsQs, tuple) else (cs.srsQs,)
                for q in Qs:
                    exp = model_srs(M, ev, cs, case, q)
                    _need(_close(pc.srs.ext[q], exp, 1e-8, _scale(exp)), "split_piece_wrong", where + f".srs.ext[{q}]", case=case)
                    _need(_close(pc.srs.srs[q][0], exp, 1e-8, _scale(exp)), "split_piece_wrong", where + f".srs.srs[{q}]", case=case)
    order = ch.perm(len(cases), "split_order")
    drop = None
    if len(cases) > 1 and ch.flip(1, 3, "drop_case"):
        drop = cases[order[-1]]
        order = order[:-1]
    new = cla.DR_Results()
    with _Sut("DR_Results.merge(split)"):
        new.merge([sp[cases[i]] for i in order])
    with _Sut("DR_Results.form_extreme(split)"):
        new.form_extreme(ext_name=ev.name, doappend=0)
    tr.shape("split_merge", ev.idx, order, drop)
    st.fault("split_merge")
    # model: a pseudo-campaign in which each kept case is an event of one case
    pseudo = []
    for i in order:
        p = Event()
        p.name = cases[i]
        p.domain = ev.domain
        p.cats = ev.cats
        p.done = [(0, cases[i])]
        p.R = ev.R
        p.x = ev.x
        p.h = getattr(ev, "h", None)
        p.peak_factor = ev.peak_factor
        p.resp_time = ev.resp_time
        p.srsfrq_for = ev.srsfrq_for
        p.nat = getattr(ev, "nat", 0.0)
        pseudo.append(p)
    keys = [p.name for p in pseudo]
    check_envelope(M, st, new["extreme"], keys, {p.name: [p] for p in pseudo}, 0, 1, "split", ev.name)
    if drop is None:
        # documented inverse: equals the event's own extrema
        for cs in ev.cats:
            a = new["extreme"][cs.name].ext
            b = ev.res[cs.name].ext
            _need(_close(a, b, TOL, _scale(b)), "split_merge_not_inverse", f"split/merge:{cs.name}.ext")


def _cats_present(res, ev, where):
    missing = [cs.name for cs in ev.cats if cs.name not in res]
    if missing:
        raise Violation("missing_category", where, missing=missing, have=list(res))


def op_calc_ext(M, ch, tr, st, ev):
    _FLOOR[0] = 1e-6 * getattr(ev, "nat", 0.0)
    res = copy.deepcopy(ev.res)
    _cats_present(res, ev, "copy.deepcopy(event results)")
    with _Sut("DR_Results.calc_ext"):
        res.calc_ext()
    st.fault("calc_ext")
    # recomputing the extremes must leave the per-case tables it reads alone
    for cs in ev.cats:
        a_, b_ = res[cs.name], ev.res[cs.name]
        for nm in ("mx", "mn", "mx_x", "mn_x", "hist", "frf", "psd", "rms"):
            if hasattr(b_, nm) and isinstance(getattr(b_, nm), np.ndarray):
                if not np.array_equal(getattr(a_, nm), getattr(b_, nm), equal_nan=True):
                    raise Violation("calc_ext_modified_tables", f"calc_ext:{cs.name}.{nm}")
        if cs.srspv is not None and hasattr(b_, "srs"):
            for q in b_.srs.srs:
                if not np.array_equal(a_.srs.srs[q], b_.srs.srs[q], equal_nan=True):
                    raise Violation("calc_ext_modified_tables", f"calc_ext:{cs.name}.srs.srs[{q}]", reason="per-case SRS table changed by calc_ext")
        if list(a_.cases) != list(b_.cases):
            raise Violation("calc_ext_modified_tables", f"calc_ext:{cs.name}.cases")
    for cs in ev.cats:
        a = res[cs.name]
        b = ev.res[cs.name]
        _need(_close(a.ext, b.ext, TOL, _scale(b.ext)), "calc_ext_wrong", f"calc_ext:{cs.name}.ext")
        allmx, allmn = _event_ext(ev, cs)
        sc = _scale(allmx, allmn)
        for i in range(cs.rows):
            att = [c for (j, c), v in zip(ev.done, allmx[:, i]) if abs(v - allmx[:, i].max()) <= TOL * sc]
            if a.maxcase[i] not in att:
                raise Violation("calc_ext_wrong", f"calc_ext:{cs.name}.maxcase", row=i, got=a.maxcase[i], attaining=att)
            att = [c for (j, c), v in zip(ev.done, allmn[:, i]) if abs(v - allmn[:, i].min()) <= TOL * sc]
            if a.mincase[i] not in att:
                raise Violation("calc_ext_wrong", f"calc_ext:{cs.name}.mincase", row=i, got=a.mincase[i], attaining=att)
        if cs.srspv is not None:
            for q in a.srs.ext:
                if np.isnan(b.srs.srs[q]).any():
                    continue  # calc_ext documents a plain max over cases: not NaN-aware
                _need(_close(a.srs.ext[q], b.srs.ext[q], 1e-12, _scale(b.srs.ext[q])), "calc_ext_wrong", f"calc_ext:{cs.name}.srs.ext[{q}]")


# ---------------------------------------------------------------------- run


def run(ch, tr, st):
    DEEP[0] = False
    _FLOOR[0] = 0.0
    kind = ch.weighted([6, 2, 2, 2], "scenario")
    with np.errstate(all="ignore"):
        if kind == 0:
            _run_campaign(ch, tr, st)
        elif kind == 1:
            scenario_extrema(ch, tr, st)
        elif kind == 2:
            scenario_uf(ch, tr, st)
        else:
            scenario_external(ch, tr, st)
    st.probe("scenario_" + ["campaign", "extrema_calls", "uf_calls", "external_maxmin"][kind])


def _run_campaign(ch, tr, st):
    # Event needs access to the SRS frequency vector and step of its campaign
    scenario_campaign(ch, tr, st)


RULE = (
    "Each evaluation is one simulated loads-analysis history: (a) a campaign of 1-4 events (time or frf domain, 1-5 cases each, "
    "1-3 categories with drawn drfuncs/uf_reds/histpv/srspv forms, optionally two DR_Event configurations with different label "
    "sets) whose recover / inspect / envelope (merge + form_extreme, 1-2 levels, doappend 0-3, case_order) / split_merge / calc_ext "
    "operations, plus checkpoint (cla.save of an event's results to a simulated file system) and crash_restart (live results lost, restored from the last checkpoint or started afresh, lost cases redone), "
    "are drawn one at a time and checked after every operation against a brute-force model holding every raw response; "
    "(b) a direct cla.extrema fold of 1- or 2-column data; (c) a sequence of cla.apply_uf calls sharing one cache. Non-trivial: "
    ">= 2 cases/calls and (case order != identity or a fault kind fired or an envelope over >= 2 events). Distinct: digest of the "
    "operation list with data replaced by its shape/fault class (for (b),(c): including the drawn values)."
)
SIMULATED_TIME_NOTE = "no clock or timer in the checked code; simulated time is the operation counter (coverage.scheduler_steps = operations executed)"
REAL_COMPONENTS = [
    "pyyeti.cla: extrema, maxmin, nan_arg*, DR_Def.add, DR_Event.add/apply_uf/frf_apply_uf/prepare_results, cla.apply_uf/_pre_calcs, "
    "DR_Results.init/time_data_recovery/frf_data_recovery/merge/split/form_extreme/init_extreme_cat/calc_ext, get_drfunc/_compile_strfunc",
    "pyyeti.srs.srs / srs_frf as called by DR_Results._compute_srs",
    "pyyeti.ytools.save/load (cla.save/cla.load) and the copyreg reducer pickle_drresults/unpickle_drresults, DR_Results.strip_hists/delete_data",
]
STUB_COMPONENTS = [
    "modal solutions of time/frf cases are synthetic arrays (bookkeeping does not require them to satisfy the equations of motion)",
    "file system behind cla.save/cla.load: in-memory SimFS bound to the name `open` in pyyeti.ytools (closed files are durable; a simulated crash loses the live objects only)",
]
ASSUMPTIONS = [
    "reference model: brute force over stored raw responses; documented uncertainty-factor table written out with dense matrices",
    "m, b, k are block-diagonal with respect to the rigid-body / elastic / residual-flexibility partitions",
    "ties: any attaining case/abscissa accepted; comparisons to 1e-9 x scale (selection) and 1e-8 (SRS)",
    "sampling of histories: a clean batch is evidence, not proof",
]
EXPECTED_FAULTS = [
    "psd_domain", "clock_jump_backwards", "clock_jump_forwards", "external_maxmin", "merge_rename", "mixed_abscissa", "model_varies_between_events", "zero_force_psd_row", "nan_cells", "ties", "ties_quantised", "one_column_ext", "label_mismatch", "j_out_of_order", "interleaved_events", "view_drfunc",
    "cache_reuse", "cache_reuse_repeat_uf", "stale_extreme_rebuild", "shared_DR_Event", "envelope_multi_event", "split_merge", "calc_ext",
    "deep_run", "maxmin_supplied_twice", "case_repeats_previous", "rf_redesignated_same_matrices", "integer_table", "inf_cells", "mixed_depth_tree", "merge_of_merged_results", "force_trimming", "psd_all_solved_before_recovery", "psd_solved_ahead", "checkpoint_saved", "crash_restart_from_checkpoint", "crash_restart_from_scratch", "crash_lost_cases_redone", "summary_copy", "summary_copy_stripped",
]
