"""Import the system under test straight from the working tree."""

import os
import sys
import warnings

SRC = os.environ.get("PYYETI_SRC") or "/repo"


def setup():
    """Make `import pyyeti` resolve to SRC's working tree; quiet warnings."""
    src = os.path.abspath(SRC)
    if sys.path[0] != src:
        sys.path.insert(0, src)
    warnings.simplefilter("ignore")
    os.environ.setdefault("MPLBACKEND", "Agg")
    import pyyeti

    where = os.path.dirname(os.path.dirname(os.path.abspath(pyyeti.__file__)))
    if where != src:
        raise RuntimeError(f"pyyeti imported from {where}, expected {src}")
    return src


def tree_info():
    import subprocess

    try:
        head = subprocess.run(
            ["git", "-C", SRC, "rev-parse", "HEAD"], capture_output=True, text=True, timeout=20
        ).stdout.strip()
        dirty = bool(
            subprocess.run(
                ["git", "-C", SRC, "status", "--porcelain", "--untracked-files=no"],
                capture_output=True,
                text=True,
                timeout=20,
            ).stdout.strip()
        )
    except Exception:
        head, dirty = "unknown", None
    return {"src": SRC, "git_head": head, "dirty": dirty}
