"""Import the system under test straight from the working tree."""

import os
import sys
import warnings

SRC = os.environ.get("PYYETI_SRC") or "/repo"


def setup():
    """Make `import pyyeti` resolve to SRC's working tree; quiet warnings."""
    src = os.path.abspath(SRC)
    if sys.path[0] != src:
        sys.path.insert(0, src)
    warnings.simplefilter("ignore")
    os.environ.setdefault("MPLBACKEND", "Agg")
    import pyyeti

    where = os.path.dirname(os.path.dirname(os.path.abspath(pyyeti.__file__)))
    if where != src:
        raise RuntimeError(f"pyyeti imported from {where}, expected {src}")
    return src


def tree_info():
    import subprocess

    try:
        head = subprocess.run(
            ["git", "-C", SRC, "rev-parse", "HEAD"], capture_output=True, text=True, timeout=20
        ).stdout.strip()
        dirty = bool(
            subprocess.run(
                ["git", "-C", SRC, "status", "--porcelain", "--untracked-files=no"],
                capture_output=True,
                text=True,
                timeout=20,
            ).stdout.strip()
        )
    except Exception:
        head, dirty = "unknown", None
    return {"src": SRC, "git_head": head, "dirty": dirty}


# ---------------------------------------------------------------- run isolation
# A simulated run must not see what an earlier run in the same OS process left
# behind in the package's module-level state (a cache dictionary, a "last
# used" global...): otherwise a run is no longer a pure function of its choice
# sequence.  Before every run the data globals of all loaded pyyeti.* modules
# are put back to (copies of) the values they had right after import.

import copy as _copy
import types as _types

_NOT_DATA = (_types.FunctionType, _types.BuiltinFunctionType, _types.ModuleType, type, _types.MethodType)
_IMMUTABLE = (type(None), bool, int, float, complex, str, bytes, frozenset)
_pristine = {}


def _is_data(k, v):
    return not (k.startswith("__") and k.endswith("__")) and not isinstance(v, _NOT_DATA)


def _fresh(v):
    if isinstance(v, _IMMUTABLE):
        return v
    try:
        return _copy.deepcopy(v)
    except Exception:
        return v


_sizes = {}
_modlist = [None, -1]


def reset_module_state():
    if _modlist[1] != len(sys.modules):
        _modlist[0] = [n for n in sorted(sys.modules) if (n == "pyyeti" or n.startswith("pyyeti.")) and sys.modules[n] is not None]
        _modlist[1] = len(sys.modules)
    for name in _modlist[0]:
        md = vars(sys.modules[name])
        base = _pristine.get(name)
        if base is None:
            _pristine[name] = {k: _fresh(v) for k, v in md.items() if _is_data(k, v)}
            _sizes[name] = len(md)
            continue
        if len(md) != _sizes[name]:
            for k in [k for k, v in md.items() if k not in base and _is_data(k, v)]:
                del md[k]
        for k, v in base.items():
            if isinstance(v, _IMMUTABLE):
                if md.get(k, base) is not v:
                    md[k] = v
            else:
                md[k] = _fresh(v)
        _sizes[name] = len(md)


# State carried by function objects (attributes, mutable default arguments) and
# by functools caches is put back as well: a planted `f.cache = {}` or
# `@lru_cache` must not leak from one simulated run into the next.
_fpristine = {}
_fcount = [-1]
_flist = []
_caches = []


def _all_functions():
    if _fcount[0] != len(sys.modules):
        _fcount[0] = len(sys.modules)
        seen = set()
        _flist.clear()
        _caches.clear()
        for name in _modlist[0] or []:
            for v in list(vars(sys.modules[name]).values()):
                cands = [v]
                if isinstance(v, type) and getattr(v, "__module__", "").startswith("pyyeti"):
                    cands += [getattr(a, "__func__", a) for a in vars(v).values()]
                for c in cands:
                    if id(c) in seen:
                        continue
                    if isinstance(c, _types.FunctionType) and (c.__module__ or "").startswith("pyyeti"):
                        seen.add(id(c))
                        _flist.append(c)
                    elif hasattr(c, "cache_clear") and callable(getattr(c, "cache_clear", None)) and hasattr(c, "__wrapped__"):
                        seen.add(id(c))
                        _caches.append(c)
    return _flist


def reset_function_state():
    for f in _all_functions():
        base = _fpristine.get(f)
        if base is None:
            d = f.__defaults__
            kd = f.__kwdefaults__
            mut = bool(d and any(not isinstance(x, _IMMUTABLE + (tuple,)) and not isinstance(x, _NOT_DATA) for x in d)) or bool(
                kd and any(not isinstance(x, _IMMUTABLE + (tuple,)) and not isinstance(x, _NOT_DATA) for x in kd.values())
            )
            _fpristine[f] = (dict(f.__dict__), _fresh(d) if mut else None, _fresh(kd) if mut else None)
            continue
        fd, d, kd = base
        if f.__dict__ or fd:
            # in place: the simulator keeps references to the live attribute dicts
            f.__dict__.clear()
            f.__dict__.update({k: _fresh(v) for k, v in fd.items()})
        if d is not None:
            f.__defaults__ = _fresh(d)
        if kd is not None:
            f.__kwdefaults__ = _fresh(kd)
    for c in _caches:
        try:
            c.cache_clear()
        except Exception:
            pass


_reset_module_state_only = reset_module_state


def reset_module_state():  # noqa: F811 - extended
    _reset_module_state_only()
    reset_function_state()
