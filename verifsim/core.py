"""
Core of the deterministic-simulation engine (DESIGN.md section 2).

Everything a simulated run decides is drawn through one `Choices` object, so
a run is a pure function of a finite list of small integers.  `Trace` is the
event log (hashed incrementally, optionally kept as text), `Stats` carries
the per-run counters that end up in the evidence file.
"""

import hashlib
import random
import struct

import numpy as np

ENGINE_VERSION = 3


class Violation(Exception):
    """The system under test broke the property."""

    def __init__(self, kind, where, **detail):
        super().__init__(f"{kind} at {where}")
        self.kind = kind
        self.where = where
        self.detail = detail

    def record(self):
        return {"kind": self.kind, "where": self.where, "detail": _jsonable(self.detail)}


class HarnessError(Exception):
    """The simulator itself is wrong; never reported as a VIOLATION."""


def _jsonable(x):
    if isinstance(x, dict):
        return {str(k): _jsonable(v) for k, v in x.items()}
    if isinstance(x, (list, tuple)):
        return [_jsonable(v) for v in x]
    if isinstance(x, np.ndarray):
        if x.size > 64:
            return {"shape": list(x.shape), "head": _jsonable(x.ravel()[:16].tolist())}
        return _jsonable(x.tolist())
    if isinstance(x, (np.floating, float)):
        return repr(float(x))
    if isinstance(x, (np.integer,)):
        return int(x)
    if isinstance(x, (np.bool_, bool)):
        return bool(x)
    if isinstance(x, complex):
        return repr(x)
    if x is None or isinstance(x, (int, str)):
        return x
    return repr(x)


def run_seed(verif_seed, prop, run_index):
    h = hashlib.sha256(f"{verif_seed}:{prop}:{run_index}".encode()).digest()
    return int.from_bytes(h[:8], "big")


class Choices:
    """The only source of nondeterminism in a run."""

    def __init__(self, seed=None, replay=None):
        self.replay = None if replay is None else list(replay)
        self.rng = random.Random(seed) if replay is None else None
        self.log = []  # values only
        self.tags = []  # (tag, n) parallel to log, for rendering
        self.pos = 0

    def draw(self, n, tag=""):
        """Integer in [0, n).  0 is always the simplest alternative."""
        if n <= 1:
            # nothing to decide: not recorded, keeps shrunken lists short
            return 0
        if self.replay is None:
            v = self.rng.randrange(n)
        else:
            if self.pos < len(self.replay):
                v = self.replay[self.pos]
                if not isinstance(v, int) or v < 0 or v >= n:
                    v = 0
            else:
                v = 0
            self.pos += 1
        self.log.append(v)
        self.tags.append((tag, n))
        return v

    def flip(self, num, den, tag=""):
        """True with probability num/den; False is the simple alternative."""
        if num <= 0:
            return False
        if num >= den:
            return True
        return self.draw(den, tag) >= den - num

    def pick(self, seq, tag=""):
        return seq[self.draw(len(seq), tag)]

    def weighted(self, weights, tag=""):
        """Index i with probability weights[i]/sum; index 0 <=> draw 0."""
        total = 0
        for w in weights:
            total += w
        if total <= 0:
            return 0
        v = self.draw(total, tag)
        acc = 0
        for i, w in enumerate(weights):
            acc += w
            if v < acc:
                return i
        return len(weights) - 1

    def subset(self, seq, num, den, tag=""):
        return [x for x in seq if self.flip(num, den, tag)]

    def perm(self, n, tag=""):
        """Permutation of range(n); all-zero draws give the identity."""
        items = list(range(n))
        out = []
        while items:
            out.append(items.pop(self.draw(len(items), tag)))
        return out

    def data_rng(self, tag="data"):
        return np.random.default_rng(self.draw(1 << 20, tag))


class Trace:
    """Event log of a run: SHA-256 over every event, text kept on request."""

    def __init__(self, capture=False, limit=4000):
        self.h = hashlib.sha256()
        self.sched = hashlib.sha256()  # schedule/history-shape digest only
        self.capture = capture
        self.lines = []
        self.limit = limit
        self.n = 0

    def _feed(self, h, parts):
        for p in parts:
            if isinstance(p, np.ndarray):
                h.update(b"A")
                h.update(str(p.dtype).encode())
                h.update(struct.pack("<%dq" % p.ndim, *p.shape) if p.ndim else b"s")
                h.update(_array_bytes(p))
            elif isinstance(p, float):
                h.update(b"F" + repr(p).encode())
            elif isinstance(p, (bytes, bytearray)):
                h.update(b"B" + bytes(p))
            else:
                h.update(b"S" + str(p).encode())
            h.update(b"|")
        h.update(b"\n")

    def ev(self, *parts):
        self.n += 1
        self._feed(self.h, parts)
        if self.capture and len(self.lines) < self.limit:
            self.lines.append(
                " ".join(
                    _short(p) for p in parts
                )
            )

    def shape(self, *parts):
        """Event that also counts towards the distinct-schedule digest."""
        self._feed(self.sched, parts)
        self.ev(*parts)

    def digest(self):
        return self.h.hexdigest()

    def shape_digest(self):
        return self.sched.hexdigest()[:24]


def _array_bytes(p):
    """Canonical bytes of an array.  Extended-precision floats (x86 80-bit values in 16-byte
    slots) carry padding bytes whose content is arbitrary: hashing tobytes() made the event
    log differ between two executions of the same run.  They are hashed as (float64 part,
    float64 remainder), which captures every value bit."""
    if p.dtype.kind in "fc" and p.dtype.itemsize > (8 if p.dtype.kind == "f" else 16):
        if p.dtype.kind == "c":
            return _array_bytes(p.real) + _array_bytes(p.imag)
        with np.errstate(all="ignore"):
            hi = p.astype(np.float64)
            lo = np.where(np.isfinite(hi), (p - hi), 0).astype(np.float64)
        return np.ascontiguousarray(hi).tobytes() + np.ascontiguousarray(lo).tobytes()
    return np.ascontiguousarray(p).tobytes()


def _short(p):
    if isinstance(p, np.ndarray):
        return f"<array {p.dtype}{list(p.shape)} {hashlib.sha256(_array_bytes(p)).hexdigest()[:10]}>"
    return str(p)


class Stats:
    def __init__(self):
        self.faults = {}
        self.probes = {}
        self.distinct = {}  # name -> str key for distinctness sets
        self.nontrivial = False
        self.rendered = {}  # human-readable description of the run
        self.steps = 0  # scheduler steps / simulated operations
        self.notes = []
        self.maxima = {}  # name -> float, aggregated with max()

    def maximum(self, name, v):
        if v > self.maxima.get(name, float("-inf")):
            self.maxima[name] = float(v)

    def fault(self, kind, k=1):
        self.faults[kind] = self.faults.get(kind, 0) + k

    def probe(self, name, k=1):
        self.probes[name] = self.probes.get(name, 0) + k


def same_bits(a, b):
    """Bit-for-bit equality up to NaN payload; returns None or a reason."""
    a = np.asarray(a)
    b = np.asarray(b)
    if a.shape != b.shape:
        return f"shape {a.shape} != {b.shape}"
    if a.dtype != b.dtype:
        return f"dtype {a.dtype} != {b.dtype}"
    if a.dtype == object:
        return None if all(x == y for x, y in zip(a.ravel(), b.ravel())) else "object values differ"
    ac = np.ascontiguousarray(a)
    bc = np.ascontiguousarray(b)
    if ac.tobytes() == bc.tobytes():
        return None
    if a.dtype.kind in "fc":
        na = np.isnan(ac)
        nb = np.isnan(bc)
        if not np.array_equal(na, nb):
            i = int(np.flatnonzero((na != nb).ravel())[0])
            return f"NaN pattern differs at flat index {i}"
        ok = (ac == bc) | na
        if a.dtype.kind == "f":
            ok &= (np.signbit(ac) == np.signbit(bc)) | na
        if ok.all():
            return None
        i = int(np.flatnonzero(~ok.ravel())[0])
        return f"value differs at flat index {i}: {ac.ravel()[i]!r} != {bc.ravel()[i]!r}"
    bad = ac != bc
    i = int(np.flatnonzero(bad.ravel())[0])
    return f"value differs at flat index {i}: {ac.ravel()[i]!r} != {bc.ravel()[i]!r}"
