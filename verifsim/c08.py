"""
C08 - step-wise generator solution equals the batch solution for any send
history (DESIGN.md section 5).

A simulated controller drives one or two solver sessions through
gen.send((i, f)) with advance / redo / jump-back / add-on / f2x-probe
operations, buffer reuse and interleaved sessions.  After every send the
visible d, v columns and the stored force history are compared with the
batch tsolve of the force history in effect (separate reference instance
built from pristine copies of the matrices); after finalize the full
solution is compared.
"""

import copy
from types import SimpleNamespace

import numpy as np

from . import sut
from .core import Violation, HarnessError

PROPERTY = "C08"

_mods = None


def modules():
    global _mods
    if _mods is None:
        sut.setup()
        from pyyeti import ode

        _mods = SimpleNamespace(ode=ode)
        sut.reset_module_state()  # records the import-time state of the package
    return _mods


KINDS = ["unc", "cplx_eig", "cdf_flag", "SolveCDF", "se2"]
BLOCK_ORDERS = [("rb", "el", "rf"), ("el", "rb", "rf"), ("rf", "rb", "el"), ("rf", "el", "rb")]


class _Sut:
    def __init__(self, where, **ctx):
        self.where = where
        self.ctx = ctx

    def __enter__(self):
        return self

    def __exit__(self, et, ev, tb):
        if et is None or issubclass(et, (Violation, HarnessError)):
            return False
        if issubclass(et, Exception):
            raise Violation("sut_exception", self.where, exception=f"{et.__name__}: {str(ev)[:300]}", **self.ctx) from ev
        return False


# ------------------------------------------------------------ system drawing


DEEP = [False]  # set per run: one run in two hundred uses larger bounds (see _run)


def draw_system(ch, rng):
    kind = KINDS[ch.weighted([3, 3, 2, 2, 3], "kind")]
    order = 1 - ch.draw(2, "order0")  # 0 draw -> order 1
    nrb = ch.weighted([3, 2, 1], "nrb")
    nel = ch.weighted([1, 3, 3, 2, 1], "nel")
    nrf = ch.weighted([4, 2, 1], "nrf")
    if DEEP[0]:
        nrb, nel, nrf = ch.draw(4, "nrb_deep"), 2 + ch.draw(8, "nel_deep"), ch.draw(4, "nrf_deep")
    cdf_small = False
    if kind in ("cdf_flag", "SolveCDF") and nel < 2:
        # off-diagonal damping needs two elastic modes; in one such draw out of four the system
        # is left as drawn (0 or 1 elastic mode, diagonal damping): the coupled-damping-as-force
        # generators then run their degenerate branches (no dynamic modes at all: rf/rb only)
        if ch.flip(1, 4, "cdf_degenerate"):
            cdf_small = True
        else:
            nel = 2
    if kind == "cplx_eig" and nel < 2:
        nel = 2
    if nrb + nel + nrf == 0:
        nel = 1
    border = BLOCK_ORDERS[ch.weighted([5, 1, 1, 1], "block_order")]
    if nrb and nrf and kind != "se2" and border[0] == "rf":
        # SolveUnc.__init__ hands full-size rigid-body indices to get_su_coef / _inv_mrb together
        # with the non-rf partition of m, b, k: with residual-flexibility modes placed
        # before rigid-body modes the constructor raises "Partitioning problem".  That
        # is a construction-time limitation (batch and generator alike, not a
        # send-history matter), so the combination is not generated.
        border = BLOCK_ORDERS[0]
    sizes = {"rb": nrb, "el": nel, "rf": nrf}
    idx = {}
    pos = 0
    for blk in border:
        idx[blk] = np.arange(pos, pos + sizes[blk])
        pos += sizes[blk]
    n = pos
    h = [0.01, 0.001, 0.05][ch.draw(3, "h")]
    f = rng.uniform(0.5, 0.2 / h, n)
    w = 2 * np.pi * f
    zpal = [0.02, 0.005, 0.1, 0.3]
    if kind == "unc":
        zpal = zpal + [1.0, 2.0]
    zeta = np.array([zpal[rng.integers(len(zpal))] for _ in range(n)])
    mdiag = rng.uniform(0.5, 3.0, n)
    mkind = ch.weighted([2, 2, 1], "mkind")  # None, vector, matrix
    if mkind == 0:
        mdiag = np.ones(n)
    kd = w**2 * mdiag
    bd = 2 * zeta * w * mdiag
    kd[idx["rb"]] = 0.0
    bd[idx["rb"]] = 0.0

    def coupled(diag, amt, blocks):
        A = np.diag(diag).astype(float)
        for blk in blocks:
            ii = idx[blk]
            if ii.size > 1:
                q = rng.standard_normal((ii.size, ii.size)) * amt
                q = (q + q.T) / 2
                np.fill_diagonal(q, 0.0)
                s = np.sqrt(np.abs(np.outer(diag[ii], diag[ii])))
                A[np.ix_(ii, ii)] += q * s
        return A

    desc = dict(kind=kind, order=order, nrb=nrb, nel=nel, nrf=nrf, block_order="-".join(border), h=h, mkind=mkind)
    m = None if mkind == 0 else mdiag
    b = bd
    k = kd
    cplx_coef = False
    if kind == "unc":
        # diagonal matrices, possibly handed over as 2-D diagonal arrays
        if mkind == 2:
            m = np.diag(mdiag)
        if ch.flip(1, 4, "b_2d_diag"):
            b = np.diag(bd)
        if ch.flip(1, 4, "k_2d_diag"):
            k = np.diag(kd)
        if ch.flip(1, 8, "complex_coefficients_unc"):
            # uncoupled equations with complex stiffness: SolveUnc takes its complex
            # (eigen-solution) generator with the `unc` branches
            cplx_coef = True
            k = k * (1 + 0.03j)
    elif kind == "cplx_eig":
        which = ch.weighted([3, 2, 2, 1], "coupling")  # b, k, b+k, m+b+k
        if which in (0, 2, 3):
            b = coupled(bd, 0.2, ["el"])
        if which in (1, 2, 3):
            k = coupled(kd, 0.1, ["el", "rf"])
        if which == 3 and mkind != 0:
            m = coupled(mdiag, 0.1, ["el"])
        elif mkind == 2:
            m = np.diag(mdiag)
        desc["coupling"] = ["b", "k", "b+k", "m+b+k"][which]
        if ch.flip(1, 8, "complex_coefficients"):
            cplx_coef = True
            k = k * (1 + 0.03j)
    elif kind in ("cdf_flag", "SolveCDF"):
        b = coupled(bd, 0.25, ["el"])
        pattern = ch.weighted([4, 1, 1], "cd_pattern")  # dense symmetric / one-way (one row) / sparse symmetric
        ii = idx["el"]
        if pattern and ii.size > 1:
            off = b - np.diag(np.diag(b))
            keep = np.zeros_like(off)
            r_ = int(ii[ch.draw(ii.size, "cd_row")])
            if pattern == 1:
                keep[r_, :] = off[r_, :]  # mode r_ feels the others' velocities, not vice versa
            else:
                c_ = int(ii[(list(ii).index(r_) + 1) % ii.size])
                keep[r_, c_] = off[r_, c_]
                keep[c_, r_] = off[c_, r_]
            b = np.diag(np.diag(b)) + keep
            desc["cd_pattern"] = ["dense", "one_way_row", "sparse_symmetric"][pattern]
        if mkind == 2:
            m = np.diag(mdiag)
    else:  # se2
        which = ch.weighted([2, 2, 2, 2], "coupling")  # none, b, k, all
        if which in (1, 3):
            b = coupled(bd, 0.2, ["el"])
        if which in (2, 3):
            k = coupled(kd, 0.1, ["el", "rf"])
        if mkind == 2:
            m = coupled(mdiag, 0.1, ["el"]) if which == 3 else np.diag(mdiag)
        desc["coupling"] = ["none", "b", "k", "all"][which]
    desc["complex_coefficients"] = cplx_coef
    rbarg = ch.weighted([2, 2, 1], "rbarg")  # None(auto), index list, bool mask
    if rbarg == 0:
        rb = None
    elif rbarg == 1:
        rb = [int(i) for i in idx["rb"]]
    else:
        rb = np.zeros(n, bool)
        rb[idx["rb"]] = True
    rf = None
    if nrf:
        rf = idx["rf"].copy() if ch.flip(1, 2, "rf_index") else np.isin(np.arange(n), idx["rf"])
    desc["rbarg"] = ["auto", "index", "mask"][rbarg]
    return SimpleNamespace(kind=kind, order=order, n=n, h=h, m=m, b=b, k=k, rb=rb, rf=rf, idx=idx, desc=desc, cplx=cplx_coef, nrb=nrb, nel=nel, nrf=nrf)


def build_solver(M, sysd, mats):
    m, b, k = mats
    ode = M.ode
    if sysd.kind == "unc" or sysd.kind == "cplx_eig":
        return ode.SolveUnc(m, b, k, sysd.h, rb=sysd.rb, rf=sysd.rf, order=sysd.order)
    if sysd.kind == "cdf_flag":
        return ode.SolveUnc(m, b, k, sysd.h, rb=sysd.rb, rf=sysd.rf, order=sysd.order, cd_as_force=True)
    if sysd.kind == "SolveCDF":
        return ode.SolveCDF(m, b, k, sysd.h, rb=sysd.rb, rf=sysd.rf, order=sysd.order)
    return ode.SolveExp2(m, b, k, sysd.h, rb=sysd.rb, rf=sysd.rf, order=sysd.order)


# ----------------------------------------------------------------- sessions


class Session:
    pass


def _scales(ref, h, s=None, d=None, v=None):
    """Round-off scales.  Besides the reference solution they include the
    largest displacement / velocity the session has *ever* shown: add-ons (and
    redone steps) can cancel most of a column, and the round-off left behind is
    relative to what was there before, not to the small remainder (found by the
    2.3 M-run thorough batch: 21 runs with errors of 3e-10..2e-9 relative to a
    remainder 1e3..1e6 times smaller than the pre-add-on value)."""
    sd = float(np.max(np.abs(ref.d))) if ref.d.size else 0.0
    sv = float(np.max(np.abs(ref.v))) if ref.v.size else 0.0
    if s is not None:
        if d is not None and d.size:
            sd = max(sd, float(np.max(np.abs(d))))
            sv = max(sv, float(np.max(np.abs(v))))
        s.Sd = sd = max(sd, getattr(s, "Sd", 0.0))
        s.Sv = sv = max(sv, getattr(s, "Sv", 0.0))
    sv = max(sv, sd / h)
    sa = max(float(np.max(np.abs(ref.a))) if ref.a.size else 0.0, sv / h)
    return max(sd, 1e-300), max(sv, 1e-300), max(sa, 1e-300)


def _cmp(got, exp, tol, scale):
    got = np.asarray(got)
    exp = np.asarray(exp)
    if got.shape != exp.shape:
        return f"shape {got.shape} != {exp.shape}", None
    if got.size == 0:
        return None, 0.0
    if not (np.isfinite(got).all() and np.isfinite(exp).all()):
        if np.array_equal(np.isfinite(got), np.isfinite(exp)):
            fin = np.isfinite(exp)
            err = float(np.max(np.abs(got[fin] - exp[fin]))) / scale if fin.any() else 0.0
            return (None if err <= tol else f"max error {err:.3e} x scale"), err
        return "non-finite values differ", None
    err = float(np.max(np.abs(got - exp))) / scale
    if err > tol:
        i = int(np.argmax(np.abs(got - exp).ravel()))
        return f"max |got-exp| = {err:.3e} x scale {scale:.3e} (tolerance {tol:.1e}) at flat index {i}: got {got.ravel()[i]!r}, expected {exp.ravel()[i]!r}", err
    return None, err


def make_session(M, ch, rng, sysd, mats_shared, sid, st, reuse=None, pre_use=False):
    s = Session()
    s.id = sid
    s.sys = sysd
    s.life = 0 if reuse is None else reuse.life + 1
    # 1..12 steps, occasionally a long session (anything keyed on a step count, a wrap-around, a buffer size)
    nt = (list(range(1, 13)) + [20, 33, 64])[ch.weighted([2, 2, 4, 6, 6, 6, 6, 4, 4, 2, 2, 2, 2, 1, 1], "nt")]
    if DEEP[0]:
        nt = 30 + ch.draw(90, "nt_deep")
    if reuse is not None and ch.flip(1, 2, "same_nt_again"):
        nt = reuse.nt  # a second run of the same length on the same object (buffers of equal shape)
    if nt > 12:
        st.fault("long_session")
    s.nt = nt
    n = sysd.n
    ic = ch.weighted([3, 2, 2], "ic")  # zero, d0/v0, static
    s.d0 = s.v0 = None
    s.static_ic = False
    F0 = draw_force(ch, rng, n, None, "F0")
    if ic == 1:
        s.d0 = rng.standard_normal(n) * 1e-2
        s.v0 = rng.standard_normal(n) * 1e-1
        z = ch.weighted([6, 1, 1], "ic_exact_zeros")  # given, but exactly zero: d0 / v0
        if z == 1:
            s.d0[:] = 0.0
        elif z == 2:
            s.v0[:] = 0.0
        only = ch.weighted([4, 2, 2], "only_d0")  # both / displacement only / velocity only
        if only == 1:
            s.v0 = None
        elif only == 2:
            s.d0 = None  # a velocity-only start (e.g. a structure released with an initial velocity)
            st.fault("ic_velocity_only")
    elif ic == 2:
        s.static_ic = True
        st.fault("static_ic")
        if ch.flip(1, 3, "static_ic_with_v0"):
            s.v0 = rng.standard_normal(n) * 1e-1  # static displacement, given velocity
    s.ic = ["zero", "d0v0", "static_ic"][ic]
    # the system under test shares its matrix objects with other sessions;
    # the reference is built from pristine private copies
    if reuse is None:
        with _Sut("solver construction", session=sid):
            s.ts = build_solver(M, sysd, mats_shared)
        s.ref = build_solver(M, sysd, copy.deepcopy(mats_shared))
    else:
        # a second co-simulation on the same solver instance (and the same reference)
        s.ts, s.ref = reuse.ts, reuse.ref
        st.fault("instance_reused")
    if pre_use:
        same_instance_call(M, ch, rng, s, st, "before generator()")
    pc = getattr(s.ref, "pc", None)
    s.tol = 1e-10
    if (sysd.kind == "cplx_eig" or sysd.cplx) and isinstance(pc, SimpleNamespace) and hasattr(pc, "ur"):
        if not getattr(pc, "eig_success", True):
            st.probe("eig_not_successful")
            return None
        c = float(np.linalg.cond(pc.ur))
        s.cond = c
        if c > 1e6:
            st.probe("ill_conditioned_eigenvectors")
            return None
        s.tol = 1e-9 * max(1.0, 1e-3 * c)
    dtype = complex if sysd.cplx else float
    s.Fm = np.zeros((n, nt), dtype)
    s.Fm[:, 0] = F0
    s.last = 0
    s.kw = dict(d0=None if s.d0 is None else s.d0.copy(), v0=None if s.v0 is None else s.v0.copy(), static_ic=s.static_ic)
    f0arg = F0.copy()
    sut_kw = {k: (v.copy() if isinstance(v, np.ndarray) else v) for k, v in s.kw.items()}
    with _Sut("generator()", session=sid):
        s.gen, s.d, s.v = s.ts.generator(nt, f0arg, **sut_kw)
    if ch.flip(1, 3, "F0_buffer_reused"):
        # the caller's initial-force array (and its d0 / v0 arrays) are scratch memory:
        # overwritten as soon as generator() returns
        f0arg[:] = np.nan
        for v in sut_kw.values():
            if isinstance(v, np.ndarray):
                v[:] = np.nan
        st.fault("F0_buffer_reused")
    s.col0 = (s.d[:, 0].copy(), s.v[:, 0].copy())
    s.sent_any = False
    s.sent_cols = set()
    s.ops = []
    s.maxerr = 0.0
    s.prev_kind = None
    s.buf = np.zeros(n)
    return s


def same_instance_call(M, ch, rng, s, st, when):
    """The caller uses the same solver instance for something else (a batch
    solve, a frequency-domain solve) before or in the middle of a generator
    session; both results must be right and the session must not notice."""
    sysd = s.sys
    n = sysd.n
    where = f"{sysd.kind}/order{sysd.order}"
    can_f = sysd.kind in ("unc", "cplx_eig")
    if can_f and ch.flip(1, 2, "bystander_is_fsolve"):
        freq = np.sort(rng.uniform(0.5, 0.3 / sysd.h, 3))
        frc = rng.standard_normal((n, 3))
        try:
            exp = s.ref.fsolve(frc.copy(), freq.copy())
        except Exception:
            # the frequency-domain solver itself refuses this system (e.g. the 1e-13
            # "factor of 2.0" consistency check in ode.addconj, seen once in 2.5 M runs):
            # an input-domain matter of fsolve (C02), not a send-history matter
            st.probe("bystander_refused_by_reference")
            return
        with _Sut("fsolve on the same instance", session=s.id, when=when):
            got = s.ts.fsolve(frc.copy(), freq.copy())
        st.fault("same_instance_fsolve")
        names = ("d", "v", "a")
        what = "fsolve"
        tol = max(s.tol if hasattr(s, "tol") else 1e-9, 1e-9)
    else:
        k = 2 + ch.draw(4, "bystander_nt")
        frc = rng.standard_normal((n, k))
        try:
            exp = s.ref.tsolve(frc.copy())
        except Exception:
            st.probe("bystander_refused_by_reference")
            return
        with _Sut("tsolve on the same instance", session=s.id, when=when):
            got = s.ts.tsolve(frc.copy())
        st.fault("same_instance_tsolve")
        names = ("d", "v", "a")
        what = "tsolve"
        tol = 1e-9
    for nm in names:
        g = np.asarray(getattr(got, nm))
        e = np.asarray(getattr(exp, nm))
        sc = max(float(np.max(np.abs(e))) if e.size else 0.0, 1e-300)
        why, _ = _cmp(g, e, tol, sc)
        if why is not None:
            raise Violation("same_instance_batch_wrong", f"{where}:{what}.{nm}", session=s.id, when=when, reason=why)


def draw_force(ch, rng, n, ctx, tag):
    kind = ch.weighted([2, 2, 1, 4, 1, 1], tag + "_kind")
    if kind == 0:
        return np.zeros(n)
    if kind == 1:
        f = np.zeros(n)
        f[ch.draw(n, tag + "_dof")] = [1.0, -1.0, 100.0][ch.draw(3, tag + "_amp")]
        return f
    if kind == 2:
        return np.ones(n)
    if kind == 3:
        return rng.standard_normal(n) * 10.0
    if kind == 4:
        return rng.standard_normal(n) * 1e6
    return rng.standard_normal(n) * 1e-6


def closed_loop_force(ch, rng, s, other, i):
    """Force computed from what the caller can see: columns < i of this body
    and the current column of the other body (joint / gap law)."""
    n = s.sys.n
    base = rng.standard_normal(n)
    j = max(0, min(i - 1, s.last))
    x = s.d[:, j].real
    xv = s.v[:, j].real
    scale = 1.0 + np.max(np.abs(x))
    f = base - 5.0 * x / scale * (np.abs(x) > 0.1 * np.max(np.abs(x)) if np.max(np.abs(x)) > 0 else 0.0) - 0.1 * xv / (1.0 + np.max(np.abs(xv)))
    if other is not None:
        y = other.d[:, other.last].real
        m_ = min(n, other.sys.n)
        f[:m_] += 3.0 * (y[:m_] - x[:m_]) / (1.0 + np.max(np.abs(y)) + np.max(np.abs(x)))
    return f


def check_after_send(s, where):
    L = s.last
    sysd = s.sys
    if not hasattr(s.ts, "_force"):
        raise Violation("force_array_missing", where, session=s.id)
    got_f = s.ts._force[:, : L + 1]
    if not np.array_equal(got_f, s.Fm[:, : L + 1]):
        raise Violation("force_history_wrong", where + ":_force", session=s.id, last=L, ops=s.ops[-6:])
    ref = s.ref.tsolve(s.Fm[:, : L + 1].copy(), **{k: (None if v is None else (v.copy() if hasattr(v, "copy") else v)) for k, v in s.kw.items()})
    fin_d = s.d[:, : L + 1][np.isfinite(s.d[:, : L + 1])]
    fin_v = s.v[:, : L + 1][np.isfinite(s.v[:, : L + 1])]
    sd, sv, sa = _scales(ref, sysd.h, s, fin_d, fin_v)
    for name, got, exp, sc in (("d", s.d[:, : L + 1], ref.d, sd), ("v", s.v[:, : L + 1], ref.v, sv)):
        why, err = _cmp(got, exp, s.tol, sc)
        if why is not None:
            raise Violation("visible_columns_wrong", f"{where}:{name}", session=s.id, last=L, reason=why, ops=s.ops[-8:], tol=s.tol)
        s.maxerr = max(s.maxerr, err or 0.0)
    if not (np.array_equal(s.d[:, 0], s.col0[0]) and np.array_equal(s.v[:, 0], s.col0[1])):
        raise Violation("column0_changed", where, session=s.id, ops=s.ops[-6:])


def op_send(M, ch, tr, st, rng, s, other, kind, buffer_reuse, closed_loop):
    n = s.sys.n
    where = f"{s.sys.kind}/order{s.sys.order}"
    if kind == "advance":
        i = s.last + 1
    elif kind == "redo":
        i = s.last
    elif kind == "jump_back":
        i = 1 + ch.draw(s.last - 1, "jump_to")
    else:
        i = -1
    if kind == "addon" or kind == "f2x_probe":
        pass
    if kind == "f2x_probe":
        return op_f2x(M, ch, tr, st, rng, s, where)
    stored = False
    if kind == "redo" and ch.flip(1, 3, "redo_same_force"):
        f = s.Fm[:, s.last].real.copy()
        stored = True
        st.fault("redo_same_force")
    elif kind in ("jump_back", "advance") and i in s.sent_cols and not s.sys.cplx and ch.flip(1, 3, "resend_stored_force"):
        # rewind / replay with exactly the force that step already holds (a client that only
        # wants to go back and march again): bit-identical to the stored column
        f = s.Fm[:, i].real.copy()
        stored = True
        st.fault("resend_stored_force")
    elif closed_loop and kind != "addon" and ch.flip(2, 3, "closed_loop"):
        f = closed_loop_force(ch, rng, s, other, i if i > 0 else s.last + 1)
        st.fault("closed_loop_force")
    else:
        f = draw_force(ch, rng, n, None, "f")
        if kind == "redo":
            st.fault("redo_new_force")
    if kind == "addon":
        f = f * [1.0, 0.1, 10.0][ch.draw(3, "addon_scale")]
    # the force vector is "1d array_like": other dtypes / containers (values made exactly
    # representable first, so that the model's float64 history is what was sent)
    # Only integer arrays: a float32 force vector makes generator AND batch solver work in
    # single precision in places (NumPy keeps float32 for `python_float * float32_array`), so
    # they agree to float32 round-off only - not a defect, and the 1e-10 oracle would demand
    # more than C08 states (false alarm met in round 2, DESIGN 11.4); lists are outside the
    # documented "1d ndarray".
    fform = ch.weighted([12, 2], "force_form") if not s.sys.cplx else 0
    if stored:
        fform = 0  # re-sent exactly as stored
    if fform == 1:
        f = np.round(f)
    # model update (the rules of the docstring)
    if i > 0:
        s.Fm[:, i] = f
        new_last = i
    else:
        s.Fm[:, s.last] = s.Fm[:, s.last] + f
        new_last = s.last
    viewsrc = None
    if (not stored and other is not None and other.sys.n == n and not other.sys.cplx and not s.sys.cplx and kind != "addon"
            and ch.flip(1, 6, "force_is_view_of_other_state")):
        # coupling through a unit spring: the force handed over IS a column of the other
        # body's displacement array (a view of another solver's state, which changes later)
        viewsrc = other.d[:, other.last]
        f = np.array(viewsrc.real, copy=True)
        if i > 0:
            s.Fm[:, i] = f
        st.fault("force_is_view_of_other_state")
    if viewsrc is not None:
        arg = viewsrc
    elif stored and i > 0 and ch.flip(1, 2, "send_view_of_force_record"):
        # replay with the solver's own (documented) force record: a VIEW of ts._force
        arg = s.ts._force[:, i]
        st.fault("sent_view_of_force_record")
    elif buffer_reuse:
        s.buf[:] = f
        arg = s.buf
        st.fault("buffer_reuse")
    else:
        arg = f.copy()
        if fform == 1:
            arg = f.astype(np.int64)
            st.fault("force_int")
    s.ops.append(f"s{s.id}.send({i}) [{kind}]")
    tr.shape("send", s.id, kind, i if i < 0 else i - s.last)
    tr.ev("force", s.id, i, f)
    with _Sut("gen.send", session=s.id, op=s.ops[-1], ops=s.ops[-8:], solver=where):
        s.gen.send((i, arg))
    if buffer_reuse and arg is s.buf:
        s.buf[:] = np.nan  # the sender reuses its memory
    # fault accounting
    if kind == "jump_back":
        st.fault("jump_back_1" if s.last - i == 1 else "jump_back_far")
    if kind == "addon":
        st.fault("addon")
        if s.sys.order == 0:
            st.fault("addon_order0")
    if s.prev_kind == "addon" and kind == "advance":
        st.fault("addon_then_advance")
    if s.prev_kind == "addon" and kind == "redo":
        st.fault("addon_then_redo")
    if s.prev_kind in ("redo", "jump_back") and kind == "advance":
        st.fault("redo_then_advance")
    if s.prev_kind == "addon" and kind == "addon":
        st.fault("addon_twice")
    s.prev_kind = kind
    s.last = new_last
    s.sent_any = True
    if i > 0:
        s.sent_cols.add(i)
    check_after_send(s, where)
    tr.ev("state", s.id, s.last, s.d[:, s.last], s.v[:, s.last])


def op_f2x(M, ch, tr, st, rng, s, where):
    n = s.sys.n
    p = 1 + ch.draw(3, "f2x_rows")
    velo = ch.flip(1, 2, "f2x_velo")
    phi = rng.standard_normal((p, n))
    if ch.flip(1, 3, "f2x_phi_partition"):
        phi = np.eye(n)[rng.permutation(n)[:p]]
        p = phi.shape[0]
    # the caller may keep ONE phi array and overwrite it in place between requests
    buf = getattr(s, "phibuf", None)
    if buf is not None and buf.shape == phi.shape and ch.flip(1, 2, "f2x_phi_buffer_reused"):
        buf[...] = phi
        arg = buf
        st.fault("f2x_phi_buffer_reused")
    else:
        arg = s.phibuf = phi.copy()
    with _Sut("get_f2x", session=s.id, solver=where):
        flex = s.ts.get_f2x(arg, velo)
    u = rng.standard_normal(p)
    fa = phi.T @ u
    arr = s.v if velo else s.d
    before = phi @ arr[:, s.last].copy()
    s.Fm[:, s.last] = s.Fm[:, s.last] + fa
    s.ops.append(f"s{s.id}.f2x_probe(velo={velo}) + send(-1)")
    tr.shape("send", s.id, "f2x_probe", velo)
    with _Sut("gen.send", session=s.id, op=s.ops[-1], solver=where):
        s.gen.send((-1, fa.copy()))
    after = phi @ arr[:, s.last]
    exp = flex @ u
    st.fault("f2x_probe")
    st.fault("addon")
    if s.prev_kind == "addon":
        st.fault("addon_twice")
    s.prev_kind = "addon"
    if np.shape(flex) != (p, p):
        raise Violation("f2x_shape", where + ":get_f2x", got=str(np.shape(flex)), expected=(p, p))
    scale = max(float(np.max(np.abs(exp))), 1e-300)
    floor = 1e-12 * float(np.max(np.abs(before)) + np.max(np.abs(after)))
    err = float(np.max(np.abs((after - before) - exp)))
    if err > 1e-8 * scale + 50 * floor:
        raise Violation(
            "f2x_not_addon_change", where + ":get_f2x", session=s.id, velo=velo, err=err, scale=scale, floor=floor,
            observed=(after - before).real.tolist(), expected=np.asarray(exp).real.tolist(), ops=s.ops[-6:],
        )
    check_after_send(s, where)


def finalize(M, s, st, tr, get_force=True):
    where = f"{s.sys.kind}/order{s.sys.order}"
    with _Sut("finalize", session=s.id, solver=where):
        sol = s.ts.finalize(get_force=True) if get_force else s.ts.finalize()
    ref = s.ref.tsolve(s.Fm.copy(), **{k: (None if v is None else (v.copy() if hasattr(v, "copy") else v)) for k, v in s.kw.items()})
    sd, sv, sa = _scales(ref, s.sys.h, s)
    for name, sc in (("d", sd), ("v", sv), ("a", sa)):
        if not hasattr(sol, name):
            raise Violation("final_field_missing", f"{where}:finalize.{name}")
        why, err = _cmp(getattr(sol, name), getattr(ref, name), s.tol, sc)
        if why is not None:
            raise Violation("final_solution_wrong", f"{where}:finalize.{name}", session=s.id, reason=why, ops=s.ops[-10:], tol=s.tol, nt=s.nt)
        s.maxerr = max(s.maxerr, err or 0.0)
    if get_force and not np.array_equal(sol.force, s.Fm):
        raise Violation("final_force_wrong", f"{where}:finalize.force", session=s.id)
    if not np.array_equal(np.asarray(sol.t), np.asarray(ref.t)) or sol.h != ref.h:
        raise Violation("final_time_wrong", f"{where}:finalize.t", got=np.asarray(sol.t).tolist()[:5], expected=np.asarray(ref.t).tolist()[:5])
    tr.ev("final", s.id, sol.d, sol.v, sol.a)
    # kept: the solution handed to the caller must still be that solution after the solver
    # object has been used again (checked at the end of the run)
    s.final = (sol, {nm: np.array(getattr(sol, nm), copy=True) for nm in ("d", "v", "a") + (("force",) if get_force else ())})


def recheck_finals(sessions, st):
    """Solutions returned by finalize() earlier in the run have not changed since."""
    for s in sessions:
        fin = getattr(s, "final", None)
        if fin is None:
            continue
        sol, snap = fin
        for nm, old in snap.items():
            now = np.asarray(getattr(sol, nm))
            if now.shape != old.shape or not np.array_equal(now, old, equal_nan=True):
                raise Violation(
                    "final_solution_changed_later", f"{s.sys.kind}/order{s.sys.order}:finalize.{nm}", session=s.id, life=s.life,
                    reason="the array returned by finalize() was modified by later use of the same solver object",
                )
        st.probe("finals_rechecked")


# ---------------------------------------------------------------------- run


def run(ch, tr, st):
    DEEP[0] = False
    M = modules()
    rng = ch.data_rng()
    with np.errstate(all="ignore"):
        _run(M, ch, tr, st, rng)


def _run(M, ch, tr, st, rng):
    nsess = 1 + (1 if ch.flip(1, 3, "two_sessions") else 0)
    same_system = nsess == 2 and ch.flip(2, 3, "same_matrices")
    buffer_reuse = ch.flip(1, 3, "buffer_reuse")
    closed_loop = ch.flip(1, 2, "closed_loop_on")
    # swarm: which operation kinds are enabled in this run, and how often
    w_adv = [6, 3, 10][ch.draw(3, "w_advance")]
    w_redo = [2, 0, 4][ch.draw(3, "w_redo")]
    w_jump = [1, 0, 3][ch.draw(3, "w_jump")]
    w_addon = [2, 0, 4][ch.draw(3, "w_addon")]
    w_f2x = [1, 0, 2][ch.draw(3, "w_f2x")]
    nops = [12, 4, 25, 40, 90][ch.weighted([8, 4, 6, 2, 1], "nops")]
    # one run in two hundred is a "deep" run: up to 17 DOF, 30-120 steps, 100-200 drawn sends
    DEEP[0] = ch.flip(1, 200, "deep_run")
    if DEEP[0]:
        nops = 100 + ch.draw(100, "nops_deep")
        st.fault("deep_run")

    same_inst = ch.flip(1, 3, "same_instance_calls")
    reuse_inst = ch.flip(1, 3, "reuse_instance")
    systems = [draw_system(ch, rng)]
    if nsess == 2:
        systems.append(systems[0] if same_system else draw_system(ch, rng))
    shared_mats = {}
    sessions = []
    for sid, sysd in enumerate(systems):
        key = id(sysd)
        if key not in shared_mats:
            shared_mats[key] = (sysd.m, sysd.b, sysd.k)
        s = make_session(M, ch, rng, sysd, shared_mats[key], sid, st, pre_use=same_inst and ch.flip(1, 2, "pre_use"))
        if s is None:
            st.rendered.update(skipped="ill-conditioned eigenvectors", system=sysd.desc)
            return
        sessions.append(s)
    st.rendered.update(
        sessions=[dict(system=s.sys.desc, nt=s.nt, ic=s.ic, tol=s.tol) for s in sessions],
        knobs=dict(buffer_reuse=buffer_reuse, closed_loop=closed_loop, weights=[w_adv, w_redo, w_jump, w_addon, w_f2x], nops=nops, same_matrices=same_system, same_instance_calls=same_inst, reuse_instance=reuse_inst),
    )
    allops = []
    st.rendered["ops"] = allops
    knobs = (w_adv, w_redo, w_jump, w_addon, w_f2x, buffer_reuse, closed_loop, same_inst)
    steps = drive(M, ch, tr, st, rng, sessions, nops, knobs, allops)
    if reuse_inst:
        # second life: new co-simulations on the same solver instances
        second = []
        for s in sessions:
            s2 = make_session(M, ch, rng, s.sys, None, s.id, st, reuse=s)
            s2.tol = s.tol
            second.append(s2)
        allops.append("-- finalize; generator() again on the same instances --")
        steps += drive(M, ch, tr, st, rng, second, max(3, nops // 2), knobs, allops)
        sessions = sessions + second
    recheck_finals(sessions, st)
    st.steps = steps
    hist = " ".join(allops)
    st.nontrivial = any(k in hist for k in ("[redo]", "[jump_back]", "[addon]", "f2x_probe"))
    st.distinct["histories"] = tr.shape_digest()
    worst = max((s.maxerr / s.tol for s in sessions), default=0.0)
    st.rendered["worst_error_over_tolerance"] = worst
    st.maximum("worst_error_over_tolerance", worst)
    for s in sessions:
        st.maximum("worst_error_x_scale:" + s.sys.kind, s.maxerr)
    if worst > 1e-2:
        st.probe("error_above_1pct_of_tolerance")


def drive(M, ch, tr, st, rng, sessions, nops, knobs, allops):
    w_adv, w_redo, w_jump, w_addon, w_f2x, buffer_reuse, closed_loop, same_inst = knobs
    for s in sessions:
        tr.shape("session", s.sys.kind, s.sys.order, s.sys.nrb, s.sys.nel, s.sys.nrf, s.sys.desc["block_order"], s.sys.desc["mkind"], s.nt, s.ic, s.life)
        tr.ev("mats", s.sys.b, s.sys.k, s.Fm[:, 0])
        if s.nt == 1:
            st.fault("nt_1")
        if s.sys.nrb + s.sys.nel == 0:
            st.fault("rf_only")
        if s.sys.nel + s.sys.nrf == 0:
            st.fault("rb_only")
        if s.sys.cplx:
            st.fault("complex_coefficients")
    last_sid = None
    steps = 0
    for _ in range(nops):
        live = [s for s in sessions if s.nt > 1]
        if not live:
            break
        s = live[ch.draw(len(live), "which_session")] if len(live) > 1 else live[0]
        if last_sid is not None and s.id != last_sid:
            st.fault("two_sessions_interleaved")
        last_sid = s.id
        other = next((o for o in sessions if o is not s), None)
        if same_inst and ch.flip(1, 6, "bystander_now"):
            same_instance_call(M, ch, rng, s, st, f"mid-session after {len(s.ops)} sends")
            allops.append(f"s{s.id}: batch/frequency solve on the same instance")
            check_after_send(s, f"{s.sys.kind}/order{s.sys.order}") if s.last >= 0 and hasattr(s.ts, "_force") else None
        kinds = []
        weights = []
        if s.last + 1 < s.nt:
            kinds.append("advance")
            weights.append(w_adv)
        if s.last >= 1:
            kinds += ["redo", "addon"]
            weights += [w_redo, w_addon]
            if s.sys.order == 1 and not s.sys.cplx:
                kinds.append("f2x_probe")
                weights.append(w_f2x)
        if s.last >= 2:
            kinds.append("jump_back")
            weights.append(w_jump)
        if not kinds or sum(weights) == 0:
            if s.last + 1 < s.nt:
                kinds, weights = ["advance"], [1]
            else:
                break
        kind = kinds[ch.weighted(weights, "op")]
        op_send(M, ch, tr, st, rng, s, other, kind, buffer_reuse, closed_loop)
        allops.append(s.ops[-1])
        steps += 1
    # faults stop: drain remaining steps in order, then finalize
    for s in sessions:
        while s.last + 1 < s.nt:
            op_send(M, ch, tr, st, rng, s, None, "advance", buffer_reuse, False)
            allops.append(s.ops[-1] + " (drain)")
            steps += 1
    for s in sessions:
        finalize(M, s, st, tr, get_force=not ch.flip(1, 4, "finalize_without_force"))
    return steps


RULE = (
    "Each evaluation is one simulated co-simulation history: 1-2 solver sessions (SolveUnc real-uncoupled / complex-eigen / "
    "cd_as_force, SolveCDF, SolveExp2; order 0/1; rigid-body / elastic / residual-flexibility blocks in drawn order; m None/vector/"
    "matrix; zero, d0/v0 or static initial conditions; nt 1..12, occasionally 20/33/64) driven by a drawn sequence of advance / redo / jump-back / add-on / "
    "get_f2x-probe sends (open- or closed-loop forces, sender buffer reuse, interleaved sessions), drained in order and finalized; "
    "after every send d, v and the stored force history are compared with batch tsolve of the force history in effect. Non-trivial: "
    "the history contains at least one redo, jump-back or add-on. Distinct: digest of (solver kind, order, partition shape, nt, "
    "initial-condition kind, sequence of (session, op kind, index offset))."
)
SIMULATED_TIME_NOTE = "no clock in the checked code; simulated time is the send counter (coverage.scheduler_steps = sends)"
REAL_COMPONENTS = [
    "pyyeti.ode.SolveUnc / SolveCDF / SolveExp2: __init__, generator, the four generator coroutines, get_f2x, finalize, _calc_acce_kdof",
    "reference: tsolve of a separate instance built from pristine copies of the matrices",
]
STUB_COMPONENTS = ["none (the co-simulation controller and its force laws are the simulated environment)"]
ASSUMPTIONS = [
    "the batch solver is the specification (its own correctness is C01/C17)",
    "tolerance: |x - x_ref| <= tau * S_x with S_v >= S_d/h, S_a >= S_v/h; tau = 1e-10 (real-uncoupled, CDF, SolveExp2), "
    "1e-9*max(1, 1e-3*cond(ur)) on the complex-eigen path; get_f2x: 1e-8 relative + cancellation floor",
    "systems are modal-like with cond(ur) <= 1e6; interspersed partitions, pre_eig, add-on before the first send are out of domain",
    "sampling of histories: a clean batch is evidence, not proof",
]
EXPECTED_FAULTS = [
    "redo_same_force", "redo_new_force", "jump_back_1", "jump_back_far", "addon", "addon_then_advance", "addon_then_redo",
    "redo_then_advance", "addon_order0", "buffer_reuse", "closed_loop_force", "two_sessions_interleaved", "nt_1", "rf_only",
    "rb_only", "static_ic", "complex_coefficients", "f2x_probe", "addon_twice", "instance_reused", "same_instance_tsolve",
    "same_instance_fsolve", "long_session", "force_int", "resend_stored_force", "deep_run", "f2x_phi_buffer_reused", "F0_buffer_reused", "sent_view_of_force_record", "ic_velocity_only", "force_is_view_of_other_state",
]
