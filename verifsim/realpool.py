"""
Real-pool fidelity cross-check (DESIGN.md 3.7), run in a child process so
that a hang of the real multiprocessing.Pool (fork in a loaded machine) is a
harness note and never blocks or fails the check.

usage: python -m verifsim.realpool <verif_seed> <first> <count>
prints one line: REALPOOL <json>
"""
import json
import sys


def main():
    verif_seed, first, count = int(sys.argv[1]), int(sys.argv[2]), int(sys.argv[3])
    from . import core, sut, c09

    c09.modules()
    out = {"ok": 0, "mismatch": 0, "skipped": 0, "mismatches": []}
    for i in range(first, first + count):
        ch = core.Choices(seed=core.run_seed(verif_seed, "C09-real", i))
        sut.reset_module_state()
        status, detail = c09.real_pool_check(ch)
        out[status] += 1
        if status == "mismatch":
            mm = {"index": i, "choices": ch.log, "detail": core._jsonable(detail)}
            out["mismatches"].append(mm)
            print("REALPOOL-MISMATCH " + json.dumps(mm), flush=True)
        print("REALPOOL-PROGRESS", i, status, flush=True)
    print("REALPOOL " + json.dumps(out), flush=True)


if __name__ == "__main__":
    main()
