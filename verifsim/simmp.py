"""
A multiprocessing pool simulated inside one process (DESIGN.md section 3).

`SimMP` stands in for the module-level name `mp` of pyyeti.srs/pyyeti.fdepsd.
Worker "processes" are real threads that are parked on semaphores; exactly
one thread (the parent or one worker) holds the baton at any time and every
hand-over is decided by the run's `Choices`.  Worker threads run under
`sys.settrace`; each line event in the traced source files is a pre-emption
point.  Each worker owns a private copy of the data globals of all loaded
`pyyeti.*` modules (fork semantics) which is swapped into the module
dictionaries while the worker holds the baton.
"""

import copy
import ctypes
import io
import multiprocessing as real_mp
import pickle
import sys
import threading
import types

import numpy as np

from .core import Violation, HarnessError

QUANTA = [None, 1, 2, 3, 5, 10, 50]  # None: run to the next state change

_NOT_DATA = (
    types.FunctionType,
    types.BuiltinFunctionType,
    types.ModuleType,
    type,
    types.MethodType,
)


class _Killed(BaseException):
    """Raised inside a simulated worker that is being terminated."""


# ----------------------------------------------------------------- fork image


def _is_ctypes(obj):
    return isinstance(obj, (ctypes.Array, ctypes._SimpleCData, ctypes.Structure))


def _shared_backed(arr):
    """True if an ndarray is a view of foreign memory (RawArray/mmap)."""
    b = arr
    while isinstance(b, np.ndarray) and b.base is not None:
        b = b.base
    return not isinstance(b, np.ndarray)


class _ForkPickler(pickle.Pickler):
    """Copy everything except shared memory, which stays shared."""

    def __init__(self, f, keep):
        super().__init__(f, protocol=pickle.HIGHEST_PROTOCOL)
        self.keep = keep

    def persistent_id(self, obj):
        if _is_ctypes(obj) or (isinstance(obj, np.ndarray) and _shared_backed(obj)):
            self.keep.append(obj)
            return len(self.keep) - 1
        return None


class _ForkUnpickler(pickle.Unpickler):
    def __init__(self, f, keep):
        super().__init__(f)
        self.keep = keep

    def persistent_load(self, pid):
        return self.keep[pid]


def fork_dumps(obj):
    keep = []
    f = io.BytesIO()
    _ForkPickler(f, keep).dump(obj)
    return f.getvalue(), keep


def fork_loads(blob):
    data, keep = blob
    return _ForkUnpickler(io.BytesIO(data), keep).load()


def _fork_copy(v):
    """What a forked child sees for a parent's module global."""
    if v is None or isinstance(v, (int, float, complex, str, bytes, bool, tuple, frozenset)):
        if isinstance(v, tuple):
            try:
                return fork_loads(fork_dumps(v))
            except Exception:
                return v
        return v
    try:
        return fork_loads(fork_dumps(v))
    except Exception:
        try:
            return copy.deepcopy(v)
        except Exception:
            return v  # cannot be copied: shared (documented limitation)


def _data_names(mod):
    return [
        k
        for k, v in vars(mod).items()
        if not (k.startswith("__") and k.endswith("__")) and not isinstance(v, _NOT_DATA)
    ]


# Per-process state that lives ON function objects rather than in module
# dictionaries: function attributes (`f.cache = {}`) and mutable default
# arguments (`def f(x, _memo={})`).  After a fork every process has its own
# copy of those too.  They are tracked for the functions (module level and
# methods of classes) defined in the modules whose code the simulated workers
# execute (FUNC_STATE_MODULES); everything else on the interpreter (state inside
# numpy/scipy, functools.lru_cache objects) stays shared - the stated trusted
# base, guarded by the real-pool cross-check.

FUNC_STATE_MODULES = ("pyyeti.srs", "pyyeti.fdepsd", "pyyeti.cyclecount", "pyyeti.dsp", "pyyeti.psd", "pyyeti.ytools", "pyyeti.locate")
_IMMUTABLE_DEFAULT = (type(None), bool, int, float, complex, str, bytes, frozenset, types.FunctionType, types.BuiltinFunctionType, type, types.ModuleType)
_func_lists = {}


def _functions_of(mod):
    """Functions defined in `mod` (module level and in its classes); cached by module size."""
    md = vars(mod)
    ent = _func_lists.get(mod.__name__)
    if ent is not None and ent[0] == len(md):
        return ent[1]
    out = []
    for v in md.values():
        if isinstance(v, types.FunctionType):
            if v.__module__ == mod.__name__:
                out.append(v)
        elif isinstance(v, type) and v.__module__ == mod.__name__:
            for a in vars(v).values():
                a = getattr(a, "__func__", a)
                if isinstance(a, types.FunctionType):
                    out.append(a)
    _func_lists[mod.__name__] = (len(md), out)
    return out


def _mutable_defaults(f):
    d = f.__defaults__
    if d and any(not isinstance(x, _IMMUTABLE_DEFAULT) and not (isinstance(x, tuple) and not x) for x in d):
        return True
    kd = f.__kwdefaults__
    return bool(kd) and any(not isinstance(x, _IMMUTABLE_DEFAULT) for x in kd.values())


_mutdef_cache = {}
_fast = {}  # module name -> (function list, their live attribute dicts, functions with mutable defaults, index)


def _set_func_dict(f, d):
    f.__dict__ = d
    fast = _fast.get(f.__module__)
    if fast is not None:
        i = fast[3].get(f)
        if i is not None:
            fast[1][i] = d


def _func_state(f):
    """(attribute dict, defaults, kwdefaults) of a function if it carries state, else None."""
    fd = f.__dict__
    md = _mutdef_cache.get(f)
    if md is None:
        # whether a function HAS mutable defaults is a property of its definition: computed once
        md = _mutdef_cache[f] = _mutable_defaults(f)
    if not fd and not md:
        return None
    return (fd, f.__defaults__ if md else None, f.__kwdefaults__ if md else None)


class GlobalsImage:
    """Data globals of every loaded pyyeti.* module (and the state carried by
    function objects of the worker modules), as one process sees them."""

    def __init__(self, mods, stub_names):
        self.mods = mods
        self.stub_names = stub_names
        self.vals = []
        self.sizes = [0] * len(mods)
        self.fmods = [m for m in mods if m.__name__ in FUNC_STATE_MODULES or getattr(m, "__simmp_func_state__", False)]
        self.fstate = {}  # function -> (attr dict, defaults, kwdefaults)

    def _read_fstate(self):
        fs = {}
        for m in self.fmods:
            funcs = _functions_of(m)
            fast = _fast.get(m.__name__)
            if fast is None or fast[0] is not funcs:
                # (list identity, the functions' attribute dicts, the functions with mutable defaults)
                fast = _fast[m.__name__] = (funcs, [f.__dict__ for f in funcs], [f for f in funcs if _func_state(f) is not None and _mutdef_cache.get(f)], {f: i for i, f in enumerate(funcs)})
            if any(fast[1]):
                for f, d in zip(funcs, fast[1]):
                    if d:
                        fs[f] = (d, None, None)
            for f in fast[2]:  # functions with mutable default arguments (few)
                fs[f] = (f.__dict__, f.__defaults__, f.__kwdefaults__)
        self.fstate = fs

    @classmethod
    def capture(cls, mods, stub_names):
        img = cls(mods, stub_names)
        for i, m in enumerate(mods):
            md = vars(m)
            img.vals.append(
                {k: md[k] for k in _data_names(m) if (m.__name__, k) not in stub_names}
            )
            img.sizes[i] = len(md)
        img._read_fstate()
        return img

    def forked(self):
        img = GlobalsImage(self.mods, self.stub_names)
        img.vals = [{k: _fork_copy(v) for k, v in d.items()} for d in self.vals]
        img.fstate = {f: (_fork_copy(fd), None if dflt is None else _fork_copy(dflt), None if kd is None else _fork_copy(kd)) for f, (fd, dflt, kd) in self.fstate.items()}
        return img

    def refresh(self):
        """Read the live module dictionaries back into this image."""
        for i, m in enumerate(self.mods):
            md = vars(m)
            d = self.vals[i]
            for k in list(d):
                if k in md:
                    d[k] = md[k]
                else:
                    del d[k]
            if len(md) != self.sizes[i]:
                for k in _data_names(m):
                    if k not in d and (m.__name__, k) not in self.stub_names:
                        d[k] = md[k]
        self._read_fstate()


def switch_images(out, in_):
    """Take the baton's view of the module globals from `out` to `in_`."""
    out.refresh()
    for i, m in enumerate(out.mods):
        md = vars(m)
        tgt = in_.vals[i]
        for k in out.vals[i]:
            if k not in tgt:
                del md[k]
        md.update(tgt)
        in_.sizes[i] = len(md)
    if out.fstate or in_.fstate:
        tgt = in_.fstate
        for f in out.fstate:
            if f not in tgt:
                _set_func_dict(f, {})  # this process never set anything on f
        for f, (fd, dflt, kd) in tgt.items():
            _set_func_dict(f, fd)
            if dflt is not None:
                f.__defaults__ = dflt
            if kd is not None:
                f.__kwdefaults__ = kd


# ------------------------------------------------------------------ scheduler


class SimWorker:
    def __init__(self, pool, wid):
        self.pool = pool
        self.id = wid
        self.sem = threading.Semaphore(0)
        self.thread = None
        self.state = "unstarted"  # init idle running dead exited
        self.quantum = None
        self.kill = False
        self.chunk = None
        self.image = None
        self.tasks_done = 0
        self.preempted_at = None
        self.weight = 4
        self.harness_exc = None
        self.last_run = -1
        self.chunks_done = 0
        self.replacement = False  # forked later, from the parent's state at that moment (maxtasksperchild)
        self.initargs_blob = None

    def mid_task(self):
        return self.state == "running" and self.preempted_at is not None


class Scheduler:
    """Owns the baton, the clock (event counter) and every decision."""

    def __init__(self, ch, tr, st, cfg, traced_files, swap_modules, stub_names):
        self.ch = ch
        self.tr = tr
        self.st = st
        self.cfg = cfg
        self.traced = traced_files  # set of co_filename strings
        self.swap_modules = swap_modules
        self.stub_names = stub_names
        self.parent_sem = threading.Semaphore(0)
        self.pools = []
        self.events = 0
        self.line_events = 0
        self.decisions = 0
        self.step_cap = cfg.get("step_cap", 200000)
        self.parent_image = None
        self.current = None
        self.last_worker = None
        self.completion_order = []
        self.assignment = {}
        self.max_mid_task = 0
        self.all_workers = []
        self.parent_frames = []
        self.parent_thread = threading.current_thread()

    # -- baton ---------------------------------------------------------------

    def _resume(self, w, quantum):
        if threading.current_thread() is not self.parent_thread:
            raise HarnessError("scheduler entered from a worker thread")
        w.quantum = quantum
        w.last_run = self.decisions
        # swap module globals: parent out, worker in
        switch_images(self.parent_image, w.image)
        self.current = w
        if w.thread is None:
            w.thread = threading.Thread(target=self._worker_main, args=(w,), daemon=True)
            w.thread.start()
        w.sem.release()
        self.parent_sem.acquire()
        self.current = None
        switch_images(w.image, self.parent_image)
        if w.harness_exc is not None:
            e = w.harness_exc
            w.harness_exc = None
            raise e

    def _yield(self, w):
        """Called on a worker thread: give the baton back, wait for it."""
        self.parent_sem.release()
        w.sem.acquire()
        if w.kill:
            raise _Killed()

    # -- worker thread -------------------------------------------------------

    def _worker_main(self, w):
        w.sem.acquire()
        pool = w.pool
        try:
            if w.kill:
                return
            w.line_tracer = lambda f, e, a: self._trace_line(w, f, e, a)
            sys.settrace(lambda f, e, a: self._trace_call(w, f, e, a))
            w.state = "init"
            try:
                if pool.initializer is not None:
                    args = fork_loads(w.initargs_blob if w.initargs_blob is not None else pool.initargs_blob)
                    pool.initializer(*args)
            except _Killed:
                raise
            except Exception as e:  # worker process dies during start-up
                w.state = "dead"
                w.preempted_at = None
                self.tr.shape("worker_died_in_init", w.id, type(e).__name__)
                self.st.probe("worker_died_in_init")
                return
            while True:
                w.state = "idle"
                w.preempted_at = None
                self._yield(w)
                chunk = w.chunk
                w.chunk = None
                out = []
                for job, idx, blob in chunk:
                    try:
                        func, arg, star = pickle.loads(blob)
                        r = func(*arg) if star else func(arg)
                        out.append((job, idx, True, pickle.dumps(r)))
                    except _Killed:
                        raise
                    except Exception as e:
                        out.append((job, idx, False, _pickle_exc(e)))
                    w.tasks_done += 1
                w.preempted_at = None
                pool._deliver(w, out)
                w.chunks_done += 1
                if pool.maxtasks is not None and w.chunks_done >= pool.maxtasks:
                    # maxtasksperchild: this process exits; the pool forks a fresh one later
                    w.state = "exited"
                    pool._spawn_replacement(w)
                    return
        except _Killed:
            w.state = "dead"
        except BaseException as e:  # harness bug
            w.harness_exc = HarnessError(f"worker thread crashed: {e!r}")
            w.state = "dead"
        finally:
            sys.settrace(None)
            if not w.kill:
                # normal hand-back when the thread ends by itself
                self.parent_sem.release()

    def _trace_call(self, w, frame, event, arg):
        if frame.f_code.co_filename in self.traced:
            return w.line_tracer
        return None

    def _trace_line(self, w, frame, event, arg):
        if event == "line":
            self.line_events += 1
            if self.line_events > self.step_cap:
                self._over_cap = True  # parent is waiting in _resume
                raise _Killed()
            if w.quantum is not None:
                w.quantum -= 1
                if w.quantum <= 0:
                    code = frame.f_code
                    w.preempted_at = (code.co_name, frame.f_lineno - code.co_firstlineno)
                    self._yield(w)
        return w.line_tracer

    # -- decisions -----------------------------------------------------------

    def candidates(self):
        cands = []
        for pool in self.pools:
            if pool.state == "terminated":
                continue
            for w in pool.workers:
                if w.state == "unstarted" or w.state == "init":
                    cands.append(w)
                elif w.state == "running":
                    cands.append(w)
                elif w.state == "idle" and pool.queue:
                    cands.append(w)
            if pool.feeder.active():
                cands.append(pool.feeder)
        # simplest alternative first: the worker that ran last, then by id
        cands.sort(key=lambda w: (0 if w is self.last_worker else 1, w.pool.pid, w.id))
        return cands

    def step(self):
        """One scheduling decision: pick a worker and let it run a quantum."""
        cands = self.candidates()
        if not cands:
            return False
        self.decisions += 1
        self.events += 1
        if len(cands) == 1:
            w = cands[0]
        else:
            sticky = self.cfg["sticky"]
            weights = [w.weight * (sticky if w is self.last_worker else 1) for w in cands]
            w = cands[self.ch.weighted(weights, "who")]
        if w.state == "feeder":
            k = [None, 1, 2, 5][self.ch.weighted([2, 4, 2, 1], "feed_chunks")]
            n = w.pool._feed(k)
            w.last_run = self.decisions
            self.tr.shape("feed", w.pool.pid, k, n)
            self.st.fault("lazy_task_feed")
            return True
        pnum, pden = self.cfg["preempt"]
        if self.ch.flip(pnum, pden, "preempt?"):
            q = QUANTA[1 + self.ch.draw(len(QUANTA) - 1, "quantum")]
        else:
            q = None
        # fault accounting (fired, not configured)
        for o in cands:
            if o is not w and self.decisions - max(o.last_run, o.pool.created_at) >= 20:
                if not getattr(o, "_stalled", False):
                    o._stalled = True
                    self.st.fault("stall")
        w._stalled = False
        if w.state == "unstarted":
            if any(x.tasks_done for x in w.pool.workers):
                self.st.fault("late_worker_start")
            if w.replacement:
                # forked now, by the pool's maintenance thread: the child sees the parent's
                # memory as it is at this instant (module globals AND the initargs objects)
                self.parent_image.refresh()
                w.image = self.parent_image.forked()
                w.initargs_blob = fork_dumps(w.pool.initargs_live)
                self.st.fault("worker_recycled")
                what = "fork+start"
            else:
                w.image = w.pool.fork_image.forked()
                what = "start"
        elif w.state == "idle":
            w.chunk = w.pool.queue.pop(0)
            for job, idx, _ in w.chunk:
                self.assignment[(job, idx)] = w.id
            w.state = "running"
            what = "take"
            if len(w.chunk) > 1:
                self.st.fault("chunked_dispatch")
        else:
            what = "cont"
        self.tr.shape("run", w.pool.pid, w.id, what, q, w.preempted_at)
        self.last_worker = w
        self._resume(w, q)
        if getattr(self, "_over_cap", False):
            raise Violation(
                "livelock",
                "simulated pool",
                line_events=self.line_events,
                step_cap=self.step_cap,
            )
        if w.mid_task():
            self.st.fault("preempt_in_task")
            n = sum(1 for x in self.all_workers if x.mid_task())
            if n >= 2:
                self.st.fault("two_workers_mid_task")
            self.max_mid_task = max(self.max_mid_task, n)
        return True

    def run_until(self, cond, what):
        while not cond():
            if not self.step():
                raise Violation(
                    "deadlock",
                    "simulated pool",
                    waiting_for=what,
                    workers=[(w.id, w.state) for w in self.all_workers],
                )

    def progress(self, where):
        """Worker progress while the parent does something that does not
        block: the parent and its workers run concurrently in reality."""
        k = self.cfg["progress"]
        n = [0, 1, 3, 10, 40][self.ch.draw(5, "progress")] if k else 0
        for _ in range(n):
            if not self.step():
                break

    # -- parent-side tracing -------------------------------------------------

    def parent_trace_on(self):
        if not self.cfg.get("parent_preempt"):
            return
        f = sys._getframe(1)
        while f is not None:
            if f.f_code.co_filename in self.traced:
                f.f_trace = self._parent_line
                self.parent_frames.append(f)
            f = f.f_back
        sys.settrace(self._parent_call)

    def parent_trace_off(self):
        if not self.cfg.get("parent_preempt"):
            return
        if any(p.state != "terminated" for p in self.pools):
            return
        sys.settrace(None)
        for f in self.parent_frames:
            f.f_trace = None
        self.parent_frames = []

    def _parent_call(self, frame, event, arg):
        if frame.f_code.co_filename in self.traced:
            return self._parent_line
        return None

    def _parent_line(self, frame, event, arg):
        if event == "line" and self.current is None:
            num, den = self.cfg["parent_preempt"]
            if self.candidates() and self.ch.flip(num, den, "parent_preempt"):
                self.st.fault("parent_preempted")
                self.step()
        return self._parent_line

    # -- life cycle ----------------------------------------------------------

    def shutdown(self):
        """End of the run: nothing simulated may survive."""
        sys.settrace(None)
        for f in self.parent_frames:
            f.f_trace = None
        leaked = 0
        for pool in self.pools:
            if pool.state != "terminated":
                leaked += 1
                pool._kill_all(count=False)
        if leaked:
            self.st.probe("pool_not_terminated_by_sut", leaked)
        for w in self.all_workers:
            if w.thread is not None:
                w.thread.join(10)
                if w.thread.is_alive():
                    raise HarnessError("simulated worker thread survived the run")


def _pickle_exc_obj(e):
    """An exception object that survives pickling (else a RuntimeError with its text)."""
    try:
        pickle.loads(pickle.dumps(e))
        return e
    except Exception:
        return RuntimeError(f"{type(e).__name__}: {e}")


def _pickle_exc(e):
    try:
        return pickle.dumps(e)
    except Exception:
        return pickle.dumps(RuntimeError(repr(e)))


# ----------------------------------------------------------------------- pool


class _Job:
    def __init__(self, jid, n, ordered):
        self.id = jid
        self.n = n
        self.ordered = ordered
        self.results = {}  # idx -> (ok, blob)
        self.arrival = []  # idx in completion order
        self.taken = 0

    def done(self):
        return self.n is not None and len(self.results) == self.n


class _Feeder:
    """The pool's task-handler thread (one per pool, inside the PARENT process):
    it pulls items from the submitted iterables and pickles them onto the task
    queue concurrently with the parent's main thread.  A schedulable entity."""

    state = "feeder"
    id = -1
    weight = 4
    last_run = -1
    _stalled = False

    def __init__(self, pool):
        self.pool = pool
        self.feeds = []  # FIFO of dicts: job, source, func, star, chunksize, idx

    def active(self):
        return bool(self.feeds)

    def mid_task(self):
        return False


def _reraise_helper(e):
    raise e


class SimPool:
    _next_pid = 0

    def __init__(self, sched, processes=None, initializer=None, initargs=(), maxtasksperchild=None, context=None):
        if processes is None:
            processes = sched.cpu_count
        if not isinstance(processes, (int, np.integer)):
            raise TypeError("Number of processes must be an int")
        if processes < 1:
            raise ValueError("Number of processes must be at least 1")
        if initializer is not None and not callable(initializer):
            raise TypeError("initializer must be a callable")
        self.sched = sched
        self.pid = len(sched.pools)
        if maxtasksperchild is not None and (not isinstance(maxtasksperchild, (int, np.integer)) or maxtasksperchild <= 0):
            raise ValueError("maxtasksperchild must be a positive int or None")
        self.maxtasks = None if maxtasksperchild is None else int(maxtasksperchild)
        self.initializer = initializer
        self.initargs_live = tuple(initargs)  # the parent's own objects (what a LATER fork would copy)
        self.initargs_blob = fork_dumps(self.initargs_live)
        self.state = "run"  # close terminated
        self.queue = []  # chunks: list of (job, idx, blob)
        self.feeder = _Feeder(self)
        self.jobs = []
        self.created_at = sched.decisions
        # fork: children inherit the parent's view of the module globals
        if sched.parent_image is None:
            sched.parent_image = GlobalsImage.capture(sched.swap_modules, sched.stub_names)
        else:
            sched.parent_image.refresh()
        self.fork_image = sched.parent_image.forked()
        self.nprocs = int(processes)
        self.workers = [SimWorker(self, i) for i in range(int(processes))]
        wts = sched.cfg["weights"]
        for w in self.workers:
            w.weight = wts[sched.ch.draw(len(wts), "speed")] if len(wts) > 1 else wts[0]
        if sched.cfg.get("lazy_feed") and len(wts) > 1:
            self.feeder.weight = wts[sched.ch.draw(len(wts), "feeder_speed")]
        sched.all_workers.extend(self.workers)
        sched.pools.append(self)
        sched.st.probe("pools_created")
        sched.tr.shape("pool", self.pid, int(processes))
        sched.parent_trace_on()
        sched.progress("Pool()")

    # -- submission ----------------------------------------------------------

    def _check_running(self):
        if self.state != "run":
            raise ValueError("Pool not running")

    def _submit(self, func, items, chunksize, ordered, star=False, lazy_source=False):
        """Enqueue a job.  Eager (default, and the simplest alternative): every item is
        pulled and pickled now.  Lazy (cfg['lazy_feed'], drawn per job): as in CPython the
        pool's task-handler thread pulls items from the iterable (imap*; for the map family
        the list is taken at call time) and pickles them later, concurrently with the
        parent's main thread - a drawn number of chunks at a time (Scheduler.step)."""
        self._check_running()
        if chunksize is None or chunksize < 1:
            chunksize = 1
        sched = self.sched
        lazy = bool(sched.cfg.get("lazy_feed")) and sched.ch.flip(1, 2, "lazy_this_job")
        if not lazy_source:
            items = list(items)  # the map family takes the list at call time (an error in the iterable surfaces here)
        job = _Job(len(self.jobs), len(items) if isinstance(items, list) else None, ordered)
        self.jobs.append(job)
        feed = dict(job=job, source=iter(items), func=func, star=star, chunksize=chunksize, idx=0)
        self.feeder.feeds.append(feed)
        if not lazy:
            self._feed(None)
        sched.tr.shape("submit", self.pid, job.id, job.n, chunksize, lazy)
        return job

    def _feed(self, nchunks):
        """Task-handler progress: move up to `nchunks` chunks (None: everything) of the
        oldest unfinished submission onto the task queue.  Runs in the parent's context."""
        fed = 0
        while self.feeder.feeds and (nchunks is None or fed < nchunks):
            fd = self.feeder.feeds[0]
            job = fd["job"]
            chunk = []
            finished = False
            while len(chunk) < fd["chunksize"]:
                try:
                    it_ = next(fd["source"])
                except StopIteration:
                    finished = True
                    break
                except Exception as e:  # the iterable itself failed: delivered as that item's error
                    chunk.append((job.id, fd["idx"], pickle.dumps((_reraise_helper, _pickle_exc_obj(e), False))))
                    fd["idx"] += 1
                    finished = True
                    break
                try:
                    blob = pickle.dumps((fd["func"], it_, fd["star"]))
                except Exception as e:
                    # as in CPython's task handler: a task that cannot be pickled is reported
                    # as that item's result, the remaining items are still sent
                    job.results[fd["idx"]] = (False, _pickle_exc(e))
                    job.arrival.append(fd["idx"])
                    fd["idx"] += 1
                    continue
                chunk.append((job.id, fd["idx"], blob))
                fd["idx"] += 1
            if chunk:
                self.queue.append(chunk)
                fed += 1
            if finished:
                if job.n is None or job.n != fd["idx"]:
                    job.n = fd["idx"]
                self.feeder.feeds.pop(0)
        return fed

    def _spawn_replacement(self, old):
        # runs on the exiting worker's thread while it holds the baton
        if self.state == "terminated":
            return
        nw = SimWorker(self, len(self.workers))
        nw.replacement = True
        nw.weight = old.weight
        self.workers.append(nw)
        self.sched.all_workers.append(nw)
        self.sched.tr.shape("recycle", self.pid, old.id, nw.id)

    def _deliver(self, w, out):
        # runs on the worker thread while it holds the baton
        for jid, idx, ok, blob in out:
            job = self.jobs[jid]
            job.results[idx] = (ok, blob)
            job.arrival.append(idx)
            self.sched.completion_order.append((self.pid, jid, idx))
        self.sched.tr.shape("done", self.pid, w.id, [(j, i) for j, i, _, _ in out])

    @staticmethod
    def _value(res):
        ok, blob = res
        v = pickle.loads(blob)
        if ok:
            return v
        raise v

    def _map_chunksize(self, n, chunksize):
        if chunksize is None:
            chunksize, extra = divmod(n, len(self.workers) * 4)
            if extra:
                chunksize += 1
        return max(1, chunksize)

    # -- the Pool surface ----------------------------------------------------

    def imap_unordered(self, func, iterable, chunksize=1):
        job = self._submit(func, iterable, chunksize, ordered=False, lazy_source=True)
        self.sched.progress("imap_unordered")
        return _ResultIter(self, job)

    def imap(self, func, iterable, chunksize=1):
        job = self._submit(func, iterable, chunksize, ordered=True, lazy_source=True)
        self.sched.progress("imap")
        return _ResultIter(self, job)

    def map_async(self, func, iterable, chunksize=None, callback=None, error_callback=None):
        items = list(iterable)
        job = self._submit(func, items, self._map_chunksize(len(items), chunksize), True)
        self.sched.progress("map_async")
        return _AsyncResult(self, job, single=False)

    def map(self, func, iterable, chunksize=None):
        return self.map_async(func, iterable, chunksize).get()

    def starmap_async(self, func, iterable, chunksize=None, callback=None, error_callback=None):
        items = [tuple(x) for x in iterable]
        job = self._submit(func, items, self._map_chunksize(len(items), chunksize), True, star=True)
        self.sched.progress("starmap_async")
        return _AsyncResult(self, job, single=False)

    def starmap(self, func, iterable, chunksize=None):
        return self.starmap_async(func, iterable, chunksize).get()

    def apply_async(self, func, args=(), kwds=None, callback=None, error_callback=None):
        kwds = kwds or {}
        job = self._submit(_apply_helper, [(func, tuple(args), dict(kwds))], 1, True)
        self.sched.progress("apply_async")
        return _AsyncResult(self, job, single=True)

    def apply(self, func, args=(), kwds=None):
        return self.apply_async(func, args, kwds).get()

    def close(self):
        if self.state == "run":
            self.state = "close"
        self.sched.tr.shape("close", self.pid)
        self.sched.progress("close")

    def join(self):
        if self.state == "run":
            raise ValueError("Pool is still running")
        if self.state == "close":
            self.sched.run_until(
                lambda: not self.queue and not self.feeder.active() and not any(w.state == "running" for w in self.workers),
                "join",
            )
            self._kill_all(count=False)
        self.sched.tr.shape("join", self.pid)

    def terminate(self):
        if self.state == "terminated":
            return
        self.sched.tr.shape("terminate", self.pid)
        self.sched.progress("terminate")
        self._kill_all(count=True)

    def _kill_all(self, count):
        sched = self.sched
        inflight = 0
        never = 0
        for w in self.workers:
            if w.state == "running":
                inflight += 1
            if w.state == "unstarted":
                never += 1
                w.state = "dead"
                continue
            if w.thread is not None and w.state != "dead":
                w.kill = True
                w.sem.release()
                w.thread.join(10)
                if w.thread.is_alive():
                    raise HarnessError("could not kill simulated worker")
                w.state = "dead"
        lost = len(self.queue) + len(self.feeder.feeds)
        self.queue = []
        self.feeder.feeds = []
        self.state = "terminated"
        if count:
            if inflight or lost:
                sched.st.probe("terminate_with_inflight", inflight + lost)
                sched.tr.shape("killed_inflight", inflight, lost)
            if never:
                sched.st.fault("worker_never_started", never)
        sched.parent_trace_off()

    def __enter__(self):
        self._check_running()
        return self

    def __exit__(self, *exc):
        self.terminate()
        return False


def _apply_helper(a):
    func, args, kwds = a
    return func(*args, **kwds)


class _ResultIter:
    def __init__(self, pool, job):
        self.pool = pool
        self.job = job
        self.k = 0

    def __iter__(self):
        return self

    def _ready(self):
        job = self.job
        if job.ordered:
            return self.k in job.results
        return self.k < len(job.arrival)

    def _exhausted(self):
        return self.job.n is not None and self.k >= self.job.n

    def __next__(self, timeout=None):
        job = self.job
        if self._exhausted():
            raise StopIteration
        sched = self.pool.sched
        if self._ready():
            sched.progress("next")
        else:
            sched.run_until(lambda: self._ready() or self._exhausted(), f"next() of job {job.id} item {self.k}")
            if not self._ready():
                raise StopIteration
        idx = self.k if job.ordered else job.arrival[self.k]
        self.k += 1
        return SimPool._value(job.results[idx])

    next = __next__


class _AsyncResult:
    def __init__(self, pool, job, single):
        self.pool = pool
        self.job = job
        self.single = single

    def ready(self):
        return self.job.done()

    def successful(self):
        if not self.ready():
            raise ValueError(f"{self!r} not ready")
        return all(ok for ok, _ in self.job.results.values())

    def wait(self, timeout=None):
        if timeout is not None:
            # a timed wait may return early: let a drawn amount of work happen
            self.pool.sched.progress("wait(timeout)")
            return
        self.pool.sched.run_until(self.job.done, f"get() of job {self.job.id}")

    def get(self, timeout=None):
        self.wait(timeout)
        if not self.ready():
            raise real_mp.TimeoutError
        vals = []
        for i in range(self.job.n):
            vals.append(SimPool._value(self.job.results[i]))
        return vals[0] if self.single else vals


# --------------------------------------------------------------------- the mp


class SimMP:
    """Replacement for the name `mp` in pyyeti.srs / pyyeti.fdepsd."""

    TimeoutError = real_mp.TimeoutError

    def __init__(self, sched, cpu_count):
        self._sched = sched
        sched.cpu_count = cpu_count
        self._cpu = cpu_count
        self.pool = types.SimpleNamespace(Pool=self.Pool)

    def cpu_count(self):
        self._sched.st.probe("cpu_count_read")
        return self._cpu

    def RawArray(self, typecode_or_type, size_or_initializer):
        # the real allocator: anonymous shared memory, zero-filled
        return real_mp.RawArray(typecode_or_type, size_or_initializer)

    def Pool(self, processes=None, initializer=None, initargs=(), maxtasksperchild=None):
        return SimPool(self._sched, processes, initializer, initargs, maxtasksperchild)

    def get_context(self, method=None):
        return self

    def get_start_method(self, allow_none=False):
        return "fork"

    def current_process(self):
        return real_mp.current_process()

    def __getattr__(self, name):
        # anything not modelled falls through to the real module; counted
        self._sched.st.probe("unmodelled_mp_attr:" + name)
        return getattr(real_mp, name)
