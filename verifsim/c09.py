"""
C09 - parallel execution is bit-identical to serial (DESIGN.md section 3).

Workload: one call of srs.srs or fdepsd.fdepsd, serially and through the
simulated pool, on fresh copies of the same drawn inputs.
"""

import contextlib
import io
import sys

import numpy as np

from . import sut
from .core import Violation, HarnessError, same_bits
from .simmp import Scheduler, SimMP

PROPERTY = "C09"

STYPES = ["absacce", "relacce", "reldisp", "relvelo", "pvelo", "pacce"]
ICS = ["zero", "shift", "mshift", "steady"]
PEAKS = ["abs", "pos", "neg", "poss", "negs", "rms", "custom", "custom_inplace"]
TIMES = ["primary", "total", "residual"]
ROLLS = ["none", "lanczos", "fft", "linear", "prefilter", None, "custom"]
QS = [10.0, 0.6, 5.0, 25.0, 50.5]
SRS_ = [100.0, 1000.0, 200.0, 50.0, 1.0e4]
MAXCPU = [14, None, 0, 1, 2, 3, 100]
CPUS = [4, 1, 2, 3, 5, 6, 8, 16, 64, 7, 2, 3]
FDE_FIELDS = [
    "freq",
    "psd",
    "peakamp",
    "binamps",
    "count",
    "bincount",
    "var",
    "srs",
    "di_sig",
    "di_test",
    "var_test",
    "sig",
    "sr",
    "resp",
]


def peak_custom(resp):
    """A user-supplied peak function (module level, hence picklable)."""
    return resp.max(axis=0) - resp.min(axis=0)


def peak_custom_inplace(resp):
    """A user-supplied peak function that works in place on the array it is given
    (rectifies it, then takes the maximum): legal - the documentation only asks for the
    peaks - and it makes the ORDER of 'take the peak' and 'store the history' observable."""
    np.abs(resp, out=resp)
    return resp.max(axis=0)


def roll_custom(sig, sr, ppc, frq):
    """A user-supplied roll-off function: sample-and-hold upsampling by 2."""
    return np.repeat(sig, 2, axis=0), sr * 2


_mods = None


def modules():
    global _mods
    if _mods is None:
        sut.setup()
        import pyyeti.srs as srs_mod
        import pyyeti.fdepsd as fdepsd_mod
        import pyyeti.cyclecount as cc_mod

        _mods = (srs_mod, fdepsd_mod, cc_mod)
        sut.reset_module_state()  # records the import-time state of the package
    return _mods


# ------------------------------------------------------------------ generation


def _signal(ch, rng, n, h):
    kind = ch.weighted([3, 3, 3, 3, 2], "sigkind")
    if kind == 4:
        # a pulse after (and before) stretches of exact zeros: a recorded event with quiet
        # lead-in / lead-out - what "skip the zero rows" shortcuts look at
        x = rng.standard_normal((n, h))
        lead = ch.draw(max(1, min(n, 8)), "lead_zeros")
        tail = ch.draw(max(1, min(n, 5)), "tail_zeros")
        x[:lead] = 0.0
        if tail:
            x[n - tail:] = 0.0
        return x, "zero_padded_pulse"
    if kind == 0:
        x = rng.standard_normal((n, h))
    elif kind == 1:
        t = np.arange(n)[:, None] / max(n, 1)
        x = np.sin(2 * np.pi * (3 + rng.integers(1, 9, (1, h))) * t) * np.exp(-3 * t)
        x = x + 0.01 * rng.standard_normal((n, h))
    elif kind == 2:
        x = 1.5 + rng.uniform(-2, 2, (1, h)) + 0.1 * rng.standard_normal((n, h))
    else:
        x = np.ones((n, h)) * rng.uniform(-3, 3, (1, h))
    return x, ["normal", "sine_burst", "step_offset", "constant"][kind]


def gen_case(ch):
    """Draw one call: returns (target, recipe) where recipe builds fresh kwargs."""
    target = "srs" if ch.weighted([17, 3], "target") == 0 else "fdepsd"
    rng = ch.data_rng()
    desc = {"target": target}
    # "dispatch-shape" runs: tiny signal, many (worker count, frequency count)
    # pairs - what a chunked/blocked dispatch or a mis-sized pool depends on
    shape_run = ch.flip(1, 5, "dispatch_shape_run")
    desc["dispatch_shape_run"] = shape_run
    # one call in 150 is a "deep" call: a few thousand samples, 100-300 frequencies (srs) /
    # 80-200 (fdepsd), up to 6 signals - larger bounds than the bulk of the batch
    deep = ch.flip(1, 150, "deep_call")
    desc["deep_call"] = deep
    if target == "srs":
        lc = ch.weighted([30, 3, 3, 3, 20, 1], "lenclass")
        if shape_run:
            lc = 0
        large = lc == 5
        if lc == 0:
            n = 4 + ch.draw(37, "n")
        elif lc in (1, 2, 3):
            n = lc
        elif lc == 4:
            n = 41 + ch.draw(360, "n")
        else:
            n = 50001 + ch.draw(5000, "n")
        h = 1 if large else 1 + ch.weighted([6, 3, 2, 1], "cols")
        if deep and not large:
            n = 500 + ch.draw(2500, "n_deep")
            h = 1 + ch.draw(6, "cols_deep")
        base, kind = _signal(ch, rng, n, h)
        dt = ch.weighted([8, 2, 1, 1, 1], "dtype")
        if dt == 4:
            base = base.astype(np.longdouble)  # extended precision input (dt < 2 below is False: no NaN planted)
        elif dt == 1:
            base = base.astype(np.float32)
        elif dt == 2:
            base = np.round(base * 100).astype(np.int16)
        elif dt == 3:
            base = np.round(base * 1000).astype(np.int64)
        nan_at = None
        if dt < 2 and ch.flip(1, 15, "nan"):
            nan_at = (ch.draw(n, "nanrow"), ch.draw(h, "nancol"))
            base[nan_at] = np.nan
        layout = ch.weighted([6, 2, 2, 2], "layout")
        one_d = h == 1 and ch.flip(1, 2, "1d")
        sr = SRS_[ch.draw(len(SRS_), "sr")]
        if large:
            lf = 1 + ch.draw(4, "LF")
        else:
            # many frequencies relative to the worker count matter for any chunked /
            # blocked dispatch: a share of runs has up to 130 of them
            lfc = ch.weighted([10, 2, 1], "LFclass")
            lf = 1 + ch.draw(16, "LF") if lfc == 0 else 17 + ch.draw(48, "LF") if lfc == 1 else 65 + ch.draw(66, "LF")
            if shape_run:
                lf = 1 + ch.draw(130, "LFshape")
            if deep:
                lf = 100 + ch.draw(200, "LF_deep")
        freq = rng.uniform(sr / 200, 0.6 * sr, lf)
        if ch.flip(1, 8, "f0"):
            freq[ch.draw(lf, "f0at")] = 0.0
        if lf > 1 and ch.flip(1, 8, "frep"):
            freq[ch.draw(lf, "frep_to")] = freq[ch.draw(lf, "frep_from")]
        if ch.flip(1, 3, "fsorted"):
            freq = np.sort(freq)
        if lf > 2 and ch.flip(1, 10, "frun"):
            # a run of 2-4 equal consecutive values (band edges, stacked sweeps)
            a0 = ch.draw(lf - 1, "frun_at")
            freq[a0 : a0 + 2 + ch.draw(3, "frun_len")] = freq[a0]
        ffmt = ch.weighted([4, 1, 1], "freqfmt")  # ndarray, list, scalar
        # the frequency vector is "1d array_like": any real dtype
        fdt = ["float64", "float32", "int64", "float16"][ch.weighted([12, 2, 1, 1], "freq_dtype")]
        if fdt == "int64":
            freq = np.round(freq)
        if fdt != "float64":
            freq = freq.astype(fdt).astype(float)  # representable values; converted to `fdt` in build()
        desc["freq_dtype"] = fdt
        stype = STYPES[ch.draw(6, "stype")]
        ic = ICS[ch.draw(4, "ic")]
        peak = PEAKS[ch.weighted([4, 1, 1, 1, 1, 1, 1, 1], "peak")]
        time = TIMES[ch.draw(3, "time")]
        roll = "none" if large else ROLLS[ch.weighted([4, 3, 2, 1, 1, 1, 1], "rolloff")]
        ppc = [12, 3, 25][ch.draw(3, "ppc")]
        eqsine = ch.flip(1, 4, "eqsine")
        getresp = False if large else ch.flip(1, 2, "getresp")
        q = QS[ch.draw(len(QS), "Q")]
        par = "auto" if (large or ch.flip(1, 40, "auto")) else "yes"
        maxcpu = MAXCPU[ch.draw(len(MAXCPU), "maxcpu")]
        if shape_run:
            maxcpu = 1 + ch.draw(16, "maxcpu_shape")
            roll = "none"
            desc["_cpu_hint"] = 64
        sr_none = n == 1 and ic != "zero" and ch.flip(1, 2, "sr_none")

        def build():
            a = base.copy()
            if layout == 1:
                a = np.asfortranarray(a)
            elif layout == 2:
                big = np.zeros((2 * n, h), dtype=a.dtype)
                big[::2] = a
                a = big[::2]
            elif layout == 3:
                a = np.ascontiguousarray(a.T).T
            if one_d:
                a = a[:, 0]
            f = freq.astype(fdt)
            if ffmt == 1:
                f = f.tolist()
            elif ffmt == 2 and lf == 1:
                f = float(f[0])
            kw = dict(
                ic=ic,
                stype=stype,
                peak=peak_custom if peak == "custom" else peak_custom_inplace if peak == "custom_inplace" else peak,
                ppc=ppc,
                rolloff=roll_custom if roll == "custom" else roll,
                eqsine=eqsine,
                time=time,
                getresp=getresp,
                maxcpu=maxcpu,
            )
            return (a, None if sr_none else sr, f, q), kw

        desc.update(
            n=n, cols=h, one_d=one_d, sigkind=kind, dtype=str(base.dtype), layout=["C", "F", "strided", "transposed"][layout],
            nan_at=nan_at, sr=None if sr_none else sr, freq=[float(x) for x in freq], freqfmt=ffmt, Q=q, ic=ic, stype=stype,
            peak=peak, time=time, rolloff=roll, ppc=ppc, eqsine=eqsine, getresp=getresp, parallel=par, maxcpu=maxcpu,
        )
        est_lines = 60 * (lf + 64) + 5000
        return target, build, par, desc, est_lines, base, freq

    # fdepsd
    manyf = shape_run or ch.flip(1, 4, "fde_many_freq")
    n = 200 + ch.draw(400 if manyf else 2800, "n")
    base, kind = _signal(ch, rng, n, 1)
    base = base[:, 0] + 0.05 * rng.standard_normal(n)
    sr = [1000.0, 200.0, 500.0][ch.draw(3, "sr")]
    lf = 9 + ch.draw(40, "LF") if manyf else 1 + ch.draw(8, "LF")
    if shape_run:
        # up to 140 frequencies: anything keyed on the number of tasks one worker executes
        # (a per-process task limit, a buffer that wraps) needs many tasks on few workers
        lf = 1 + ch.draw(64, "LFshape") if not ch.flip(1, 3, "LFshape_large") else 51 + ch.draw(90, "LFshape")
    if deep:
        n = 3000 + ch.draw(3000, "n_deep")
        base, kind = _signal(ch, rng, n, 1)
        base = base[:, 0] + 0.05 * rng.standard_normal(n)
        lf = 80 + ch.draw(120, "LF_deep")
    elif ch.flip(1, 6, "fde_replica_record"):
        # an event followed, after a quiet gap, by an exact 1/2 or 1/4 scale replica of itself, no
        # noise: cycle amplitudes that are EXACT fractions of the largest one (they fall on bin
        # edges: the tie-breaking of any binning scheme becomes visible)
        L = 40 + ch.draw(200, "burst_len")
        gap = 200 + ch.draw(600, "gap_len")
        t_ = np.arange(L)
        burst = np.sin(2 * np.pi * t_ / (6 + ch.draw(20, "burst_period"))) * np.hanning(L) * (1 + ch.draw(4, "burst_amp"))
        fac = [0.5, 0.25, 1.0][ch.draw(3, "replica_scale")]
        base = np.concatenate((burst, np.zeros(gap), fac * burst, np.zeros(gap)))
        n = base.size
        kind = "burst_plus_scaled_replica"
    elif ch.flip(1, 40, "fde_long_signal"):
        # a long record with few frequencies (anything that switches on above a size threshold)
        n = 50001 + ch.draw(15000, "n_long")
        base, kind = _signal(ch, rng, n, 1)
        base = base[:, 0] + 0.05 * rng.standard_normal(n)
        lf = 1 + ch.draw(3, "LF_long")
        desc["long_signal"] = True
    freq = rng.uniform(sr / 100, 0.45 * sr, lf)
    if ch.flip(1, 3, "fsorted"):
        freq = np.sort(freq)
    if lf > 1 and ch.flip(1, 8, "frep"):
        freq[ch.draw(lf, "frep_to")] = freq[ch.draw(lf, "frep_from")]
    if lf > 2 and ch.flip(1, 8, "frun"):
        a0 = ch.draw(lf - 1, "frun_at")
        freq[a0 : a0 + 2 + ch.draw(3, "frun_len")] = freq[a0]
    # (no float16 here: fdepsd puts the frequencies in a pandas index, which refuses float16)
    fdt = ["float64", "float32", "int64", "float32"][ch.weighted([12, 2, 1, 1], "freq_dtype")]
    if fdt == "int64":
        freq = np.maximum(np.round(freq), 1.0)
    if fdt != "float64":
        freq = freq.astype(fdt).astype(float)
    desc["freq_dtype"] = fdt
    nbins = [5, 1, 2, 3, 10, 30, 300][ch.weighted([6, 1, 2, 3, 0, 0, 0] if manyf else [6, 1, 2, 3, 4, 2, 1], "nbins")]
    resp = ["absacce", "pvelo"][ch.draw(2, "resp")]
    q = QS[ch.draw(len(QS), "Q")]
    t0 = [60.0, 1.0, 600.0][ch.draw(3, "T0")]
    roll = ["lanczos", "none", "fft", "linear", "prefilter", None][ch.weighted([3, 3, 1, 1, 1, 1], "rolloff")]
    ppc = [12, 3, 25][ch.draw(3, "ppc")]
    hp = [5.0, None][ch.draw(2, "hpfilter")]
    we = ["auto", None][ch.draw(2, "winends")]
    detrend = not ch.flip(1, 3, "nodetrend")
    verbose = ch.flip(1, 6, "verbose")
    par = "yes"
    maxcpu = MAXCPU[ch.draw(len(MAXCPU), "maxcpu")]
    if shape_run:
        maxcpu = 1 + ch.draw(16, "maxcpu_shape")
        desc["_cpu_hint"] = 64
    dt = ch.weighted([8, 2], "dtype")
    if dt == 1:
        base = base.astype(np.float32)

    def build():
        kw = dict(
            resp=resp, detrend=detrend, winends=we, hpfilter=hp, nbins=nbins, T0=t0, rolloff=roll, ppc=ppc,
            maxcpu=maxcpu, verbose=verbose,
        )
        return (base.copy(), sr, freq.astype(fdt), q), kw

    desc.update(
        n=n, sigkind=kind, dtype=str(base.dtype), sr=sr, freq=[float(x) for x in freq], Q=q, resp=resp, nbins=nbins, T0=t0,
        rolloff=roll, ppc=ppc, hpfilter=hp, winends=we, detrend=detrend, verbose=verbose, parallel=par, maxcpu=maxcpu,
    )
    est_lines = 8 * lf * (40 + 3 * nbins) + 64 * 60 + 5000
    return target, build, par, desc, est_lines, base, freq


def gen_sched_cfg(ch, target, cpu_hint=None):
    cfg = {}
    cfg["cpu_count"] = CPUS[ch.draw(len(CPUS), "cpu_count")]
    if cpu_hint:
        cfg["cpu_count"] = cpu_hint
    cfg["preempt"] = [(0, 1), (1, 20), (3, 10), (1, 1)][ch.weighted([1, 2, 4, 3], "preempt_cfg")]
    cfg["sticky"] = [1, 4, 16, 1][ch.draw(4, "sticky")]
    cfg["weights"] = [[4], [1, 4, 16], [1, 16]][ch.draw(3, "speeds")]
    cfg["progress"] = not ch.flip(1, 4, "noprogress")
    cfg["parent_preempt"] = (1, 4) if ch.flip(1, 5, "parent_preempt_on") else None
    cfg["trace_cyclecount"] = target == "fdepsd" and ch.flip(1, 3, "trace_cc")
    # the pool's task-handler thread pulls and pickles the submitted items concurrently
    # with the parent's main thread (drawn per job when this knob is on)
    cfg["lazy_feed"] = ch.flip(1, 3, "lazy_feed_on")
    return cfg


# ------------------------------------------------------------------- execution


def _call(target, build, parallel):
    srs_mod, fdepsd_mod, _ = modules()
    args, kw = build()
    buf = io.StringIO()
    try:
        with contextlib.redirect_stdout(buf):
            if target == "srs":
                out = srs_mod.srs(*args, parallel=parallel, **kw)
            else:
                out = fdepsd_mod.fdepsd(*args, parallel=parallel, **kw)
        return ("ok", out)
    except (Violation, HarnessError):
        raise
    except Exception as e:  # the call itself refused / failed
        return ("exc", e)


def _flatten(target, out):
    """Name -> ndarray for every output the property speaks about."""
    import pandas as pd

    items = {}
    if target == "srs":
        if isinstance(out, tuple):
            sh, resp = out
            items["sh"] = np.asarray(sh)
            for k in sorted(resp):
                items[f"resp[{k}]"] = np.asarray(resp[k])
        else:
            items["sh"] = np.asarray(out)
        return items
    for k in FDE_FIELDS:
        if not hasattr(out, k):
            items[k] = np.asarray("<missing>")
            continue
        v = getattr(out, k)
        if isinstance(v, pd.DataFrame):
            items[k] = v.values
            items[k + ".index"] = np.asarray(v.index.values)
            items[k + ".columns"] = np.asarray([str(c) for c in v.columns])
        elif isinstance(v, pd.Series):
            items[k] = v.values
            items[k + ".index"] = np.asarray(v.index.values)
        else:
            items[k] = np.asarray(v)
    return items


def compare(target, ser, par, where):
    if ser[0] != par[0]:
        raise Violation(
            "one_path_raised",
            where,
            serial=_describe(ser),
            parallel=_describe(par),
        )
    if ser[0] == "exc":
        if type(ser[1]) is not type(par[1]):
            raise Violation("different_exception", where, serial=_describe(ser), parallel=_describe(par))
        return "both_raised"
    a = _flatten(target, ser[1])
    b = _flatten(target, par[1])
    if sorted(a) != sorted(b):
        raise Violation("different_outputs", where, serial=sorted(a), parallel=sorted(b))
    for k in a:
        why = same_bits(a[k], b[k])
        if why is not None:
            raise Violation("parallel_differs", f"{where}:{k}", field=k, reason=why)
    return "equal"


def _describe(r):
    if r[0] == "exc":
        return f"raised {type(r[1]).__name__}: {str(r[1])[:200]}"
    return "returned normally"


def run(ch, tr, st):
    srs_mod, fdepsd_mod, cc_mod = modules()
    cases = [gen_case(ch)]
    cfg = gen_sched_cfg(ch, cases[0][0], cases[0][3].get("_cpu_hint"))
    # a parent process may call the functions several times: module globals and
    # anything else that outlives a call are shared by the calls of one run
    extra = ch.weighted([6, 2, 1], "extra_calls")
    for _ in range(extra):
        cases.append(gen_case(ch))
    cfg["step_cap"] = 4 * sum(c[4] for c in cases)
    st.rendered["call"] = cases[0][3] if len(cases) == 1 else [c[3] for c in cases]
    st.rendered["sched_cfg"] = {k: v for k, v in cfg.items()}
    if len(cases) > 1:
        st.fault("several_calls_one_parent")
    if any(c[3].get("deep_call") for c in cases):
        st.fault("deep_call")

    traced = {srs_mod.__file__, fdepsd_mod.__file__}
    if cfg["trace_cyclecount"] and any(c[0] == "fdepsd" for c in cases):
        traced.add(cc_mod.__file__)
    swap = [m for n, m in sorted(sys.modules.items()) if (n == "pyyeti" or n.startswith("pyyeti.")) and m is not None]
    stub_names = {("pyyeti.srs", "mp"), ("pyyeti.fdepsd", "mp")}
    sched = Scheduler(ch, tr, st, cfg, traced, swap, stub_names)
    simmp = SimMP(sched, cfg["cpu_count"])
    before = {(m.__name__, k): vars(m).get(k) for m in (srs_mod, fdepsd_mod) for k in ("WN_", "SIG_", "SRSmax_", "HIST_", "ICVALS_", "ASV_", "BinAmps_", "Count_") if k in vars(m)}
    real = (srs_mod.mp, fdepsd_mod.mp)
    srs_mod.mp = simmp
    fdepsd_mod.mp = simmp
    results = []
    held = []
    try:
        try:
            for ci, (target, build, par, desc, est_lines, base, freq) in enumerate(cases):
                tr.ev("case", ci, target, base, np.asarray(freq), sorted((k, str(v)) for k, v in desc.items()))
                ser = _call(target, build, "no")
                p0 = len(sched.pools)
                c0 = len(sched.completion_order)
                pr = _call(target, build, par)
                outcome = compare(target, ser, pr, target if ci == 0 else f"{target}(call {ci + 1} of one parent)")
                st.probe("outcome_" + outcome)
                results.append((target, par, ser, p0, c0))
                if pr[0] == "ok":
                    # what the caller was handed must still be that when the parent has made
                    # its later calls (a returned history may be a view of shared memory)
                    held.append((ci, target, pr[1], {k: np.array(v, copy=True) for k, v in _flatten(target, pr[1]).items() if v.dtype != object}))
                _account(st, sched, cfg, par, p0, c0)
                if ser[0] == "ok":
                    for k, v in _flatten(target, ser[1]).items():
                        if v.dtype != object:
                            tr.ev("out", k, v)
                else:
                    tr.ev("exc", type(ser[1]).__name__)
            if ch.flip(1, 2, "same_objects_again") if (cases[-1][3].get("long_signal") or cases[-1][3].get("deep_call") or cases[-1][5].size > 50000) else ch.flip(1, 5, "same_objects_again"):
                # a caller's loop that keeps its arrays: the SAME signal / frequency objects are
                # passed to two parallel calls, the signal overwritten in place in between
                target, build, par, desc, est_lines, base, freq = cases[-1]
                args, kw = build()
                if isinstance(args[0], np.ndarray) and args[0].flags.writeable and args[0].size:
                    st.fault("same_objects_passed_again")
                    sched.step_cap += 4 * est_lines  # two more parallel calls of this size
                    first = _call(target, lambda: (args, kw), par)
                    first_snap = {k: np.array(v, copy=True) for k, v in _flatten(target, first[1]).items() if v.dtype != object} if first[0] == "ok" else None
                    sig = args[0]
                    sig[...] = (-sig if sig.dtype.kind in "iu" else sig * -0.5 + 1.0)
                    expect = _call(target, lambda: (tuple(np.array(a, copy=True) if isinstance(a, np.ndarray) else a for a in args), dict(kw)), "no")
                    p0 = len(sched.pools)
                    c0 = len(sched.completion_order)
                    again = _call(target, lambda: (args, kw), par)
                    compare(target, expect, again, f"{target}(same objects passed again, signal overwritten in place)")
                    if first_snap is not None:
                        now = _flatten(target, first[1])
                        for k, v in first_snap.items():
                            if k in now and isinstance(now[k], np.ndarray) and np.shares_memory(now[k], sig):
                                continue  # an output that IS the caller's input (fdepsd's .sig without conditioning): the harness changed it itself
                            if k not in now or now[k].shape != v.shape or not np.array_equal(now[k], v, equal_nan=(v.dtype.kind in "fc")):
                                raise Violation(
                                    "returned_result_changed_later", f"{target}(first of two calls with the same objects):{k}",
                                    reason="an array returned by the first call was modified by the second call (same shapes, same objects)",
                                )
                    _account(st, sched, cfg, par, p0, c0)
        finally:
            sched.shutdown()
    finally:
        srs_mod.mp, fdepsd_mod.mp = real
    if len(cases) > 1:
        for ci, target, out, snap in held[:-1]:
            now = _flatten(target, out)
            for k, v in snap.items():
                if k not in now or now[k].shape != v.shape or not np.array_equal(now[k], v, equal_nan=(v.dtype.kind in "fc")):
                    raise Violation(
                        "returned_result_changed_later", f"{target}(call {ci + 1} of one parent):{k}",
                        reason="an array returned by an earlier parallel call was modified by a later call of the same parent process",
                    )
        st.probe("earlier_results_rechecked")
    # The parent's own view of the worker globals normally stays as it was (the workers'
    # assignments live in their images; tests/test_simmp.py checks that isolation).  It is
    # NOT an error if it changed: code under test may legitimately run the initializer in
    # the calling process (e.g. a one-worker short-cut) - that was once reported as a
    # harness error ("leaked out of a simulated worker") and hid real violations behind
    # exit 2 (seeded change C09-f1).  Counted only.
    for (mn, k), v in before.items():
        if vars(sys.modules[mn]).get(k) is not v:
            st.probe("parent_module_state_changed")
            break
    st.steps = sched.decisions
    st.probe("line_events", sched.line_events)
    st.distinct["schedule_digests"] = tr.shape_digest()


def _account(st, sched, cfg, par, p0, c0):
    """Fault/coverage accounting for the pools created by one call."""
    pools = sched.pools[p0:]
    if not pools:
        st.probe("pool_not_used")
        if par == "auto":
            st.probe("auto_chose_serial")
        return
    if par == "auto":
        st.fault("auto_chose_parallel")
    nw = getattr(pools[0], "nprocs", len(pools[0].workers))  # recycled workers (maxtasksperchild) do not count
    ntasks = sum((j.n if j.n is not None else len(j.results)) for p in pools for j in p.jobs)  # n unknown: never fully fed
    pids = {p.pid for p in pools}
    assign = {k: v for k, v in sched.assignment.items() if True}
    ran = sorted({w.id for p in pools for w in p.workers if w.tasks_done})
    st.fault("workers_1" if nw == 1 else "workers_2_4" if nw <= 4 else "workers_5_16" if nw <= 16 else "workers_gt16")
    if nw > ntasks:
        st.fault("workers_gt_tasks")
    if cfg["cpu_count"] == 1:
        st.fault("cpu_count_1")
    order = [i for (pid, _, i) in sched.completion_order[c0:] if pid in pids]
    if order == sorted(order, reverse=True) and len(order) > 1:
        st.fault("completion_order_reversed")
    elif order != sorted(order):
        st.fault("completion_order_permuted")
    if len(ran) == 1 and nw > 1 and ntasks > 1:
        st.fault("one_worker_takes_all")
    mid = max((getattr(p, "max_mid_task", 0) for p in pools), default=0)
    if len(ran) >= 2 and (order != sorted(order) or sched.max_mid_task >= 2):
        st.nontrivial = True
    st.distinct["completion_orders"] = st.distinct.get("completion_orders", "") + "|" + ",".join(map(str, order))
    st.distinct["assignments"] = st.distinct.get("assignments", "") + "|" + ",".join(f"{w.id}:{w.tasks_done}" for p in pools for w in p.workers if w.tasks_done)


# ------------------------------------------------- real-pool fidelity cross-check


def real_pool_check(ch):
    """Same drawn call through the real multiprocessing.Pool (section 3.7).
    Returns (status, detail); status in ok / mismatch / skipped."""
    target, build, par, desc, _, _, _ = gen_case(ch)
    ser = _call(target, build, "no")
    try:
        pr = _call(target, build, "yes")
    except Exception as e:  # pragma: no cover
        return "skipped", repr(e)
    try:
        compare(target, ser, pr, target + "(real pool)")
    except Violation as v:
        return "mismatch", {"violation": v.record(), "call": desc}
    return "ok", desc


def post_search(tier, verif_seed):
    """Runs in the parent after the search: the real-pool cross-check, in a
    child process with a timeout (a hang of the real pool is a note, not a verdict)."""
    import json
    import os
    import subprocess

    n = 8 if tier == "quick" else 200
    budget = 60 if tier == "quick" else 600
    root = os.path.dirname(os.path.dirname(os.path.abspath(__file__)))
    res = {"ok": 0, "mismatch": 0, "skipped": 0, "planned": n, "note": ""}
    viol = []
    env = dict(os.environ, PYTHONPATH=root)
    out = ""
    try:
        p = subprocess.run([sys.executable, "-m", "verifsim.realpool", str(verif_seed), "0", str(n)], capture_output=True, text=True, timeout=budget, cwd=root, env=env)
        out = p.stdout
        if p.returncode != 0:
            res["note"] = "real-pool child exited with status %d: %s" % (p.returncode, p.stderr[-300:])
    except subprocess.TimeoutExpired as e:
        out = e.stdout.decode() if isinstance(e.stdout, bytes) else (e.stdout or "")
        res["note"] = f"real-pool child did not finish within {budget} s (hang or slow machine); completed calls are counted, the rest skipped"
    final = [ln for ln in out.splitlines() if ln.startswith("REALPOOL ")]
    mms = [json.loads(ln[len("REALPOOL-MISMATCH "):]) for ln in out.splitlines() if ln.startswith("REALPOOL-MISMATCH ")]
    if final or mms:
        if final:
            got = json.loads(final[-1][9:])
            for k in ("ok", "mismatch", "skipped"):
                res[k] = got[k]
        else:
            for ln in out.splitlines():
                if ln.startswith("REALPOOL-PROGRESS"):
                    st_ = ln.split()[-1]
                    if st_ in res:
                        res[st_] += 1
            res["skipped"] += n - res["ok"] - res["mismatch"] - res["skipped"]
        for mm in mms:
            outdir = os.environ.get("VERIF_OUT") or root
            os.makedirs(os.path.join(outdir, "replays"), exist_ok=True)
            path = os.path.join(outdir, "replays", f"C09-realpool-{verif_seed}-{mm['index']}.json")
            with open(path, "w") as f:
                json.dump({"property": "C09", "deterministic": False, "choices": mm["choices"], "verif_seed": verif_seed, "index": mm["index"], **mm["detail"]}, f, indent=1)
            viol.append(path)
    else:
        for ln in out.splitlines():
            if ln.startswith("REALPOOL-PROGRESS"):
                st_ = ln.split()[-1]
                if st_ in res:
                    res[st_] += 1
        res["skipped"] += n - res["ok"] - res["mismatch"] - res["skipped"]
    return {"real_pool_crosscheck": res, "violations": viol}


def replay_nondeterministic(doc):
    """Replay of a real-pool mismatch: repeat the real call 50 times."""
    from . import core

    sut.setup()
    bad = 0
    for _ in range(50):
        ch = core.Choices(replay=doc["choices"])
        modules()
        sut.reset_module_state()
        status, detail = real_pool_check(ch)
        bad += status == "mismatch"
    print(f"real-pool replay: {bad}/50 executions differ from serial")
    if bad:
        print(f"VIOLATION property=C09 replay=(real pool, not deterministic)")
        return 1
    return 0


RULE = (
    "Each evaluation is one simulated execution: a drawn srs.srs/fdepsd.fdepsd call (signal length/layout/dtype, freq, Q, stype, ic, "
    "peak, time, rolloff, eqsine, getresp, maxcpu, cpu_count) run serially and through the simulated multiprocessing pool under a "
    "seeded schedule (worker count, worker speeds, late starts, line-level pre-emption inside tasks, task->worker assignment, "
    "completion order); outputs compared bit for bit. Non-trivial: >= 2 simulated workers executed tasks AND (completion order != "
    "submission order OR >= 2 workers were inside a task at the same time). Distinct: SHA-256 of the sequence of scheduler events "
    "(pool/submit/run/take/cont/done with worker ids, quanta and pre-emption sites) together with completion order and task->worker map."
)
SIMULATED_TIME_NOTE = (
    "C09 has no clock or timer in it; simulated time is the scheduler's event counter (coverage.scheduler_steps = scheduling "
    "decisions; probes.line_events = traced source lines executed by simulated workers)"
)
REAL_COMPONENTS = [
    "pyyeti.srs.srs, _process_parallel, _process_ic, _add_one_cycle, roll-off functions, createSharedArray, copyToSharedArray, "
    "_mk_par_globals[_ic], _dosrs[_nohist][_ic] (unmodified source from the working tree)",
    "pyyeti.fdepsd.fdepsd, _mk_par_globals, _dofde; pyyeti.cyclecount.findap/rainflow (c_rain if built, else py_rain)",
    "scipy.signal.lfilter, numpy, multiprocessing.RawArray (real shared-memory allocator)",
    "real multiprocessing.Pool in the fidelity cross-check (coverage.real_pool_crosscheck)",
]
STUB_COMPONENTS = [
    "the name `mp` in pyyeti.srs and pyyeti.fdepsd -> SimMP (cpu_count drawn; Pool simulated: worker processes are baton-passing "
    "threads with private copies of all pyyeti.* module data globals, fork-copied initargs, pickled task/result queue)",
    "OS scheduler -> seeded choice sequence",
]
ASSUMPTIONS = [
    "pre-emption granularity is the source line (sys.settrace) of srs.py/fdepsd.py (and cyclecount.py in a subset of runs)",
    "process isolation is modelled for module data globals, initargs and queue traffic; function attributes, default-argument "
    "objects and state inside numpy/scipy are shared by simulated workers (guarded by the real-pool cross-check)",
    "fork start method only",
    "sampling of schedules and inputs: a clean batch is evidence, not proof",
]
EXPECTED_FAULTS = [
    "workers_1", "workers_2_4", "workers_5_16", "workers_gt_tasks", "late_worker_start", "worker_never_started", "stall",
    "preempt_in_task", "two_workers_mid_task", "completion_order_reversed", "completion_order_permuted", "one_worker_takes_all",
    "cpu_count_1", "auto_chose_parallel", "parent_preempted", "several_calls_one_parent", "lazy_task_feed", "deep_call", "same_objects_passed_again",
]
